package simdb

import (
	"strconv"
	"fmt"
	"sort"
	"strings"
	"time"
	"verif/simkit"
)

type Index struct {
	Name string
	// Cols: column names; "" is a functional key part (non-unique indexes only)
	Cols    []string
	Unique  bool
	Primary bool
}

type Row []interface{}

func (r Row) clone() Row {
	out := make(Row, len(r))
	for i, v := range r {
		out[i] = cloneVal(v)
	}
	return out
}

type Table struct {
	Schema  string
	Name    string
	Cols    []*Column
	colIdx  map[string]int
	PK      []int
	Indexes []*Index
	rows    map[string]Row // committed rows by pk key
	autoInc int64
	hidden  int64 // hidden row id counter for tables without primary key
}

func (t *Table) Col(name string) (int, bool) {
	i, ok := t.colIdx[strings.ToLower(name)]
	return i, ok
}

func (t *Table) pkKey(r Row) string {
	var sb strings.Builder
	for _, i := range t.PK {
		sb.WriteString(keyPart(r[i]))
		sb.WriteByte('|')
	}
	return sb.String()
}

func keyPart(v interface{}) string {
	switch x := v.(type) {
	case nil:
		return "N"
	case string:
		return "s" + strings.ToLower(strings.TrimRight(x, " "))
	case []byte:
		return fmt.Sprintf("b%x", x)
	case time.Time:
		return "t" + x.UTC().Format(time.RFC3339Nano)
	case uint64:
		return fmt.Sprintf("i%020d", x)
	case int64:
		if x < 0 {
			return fmt.Sprintf("h%020d", uint64(x)) // negatives sort before positives ('h' < 'i'), increasing
		}
		return fmt.Sprintf("i%020d", x)
	case float32:
		return fmt.Sprintf("f%v", x)
	case float64:
		return fmt.Sprintf("f%v", x)
	}
	return fmt.Sprintf("?%v", v)
}

type Schema struct {
	Name   string
	Tables map[string]*Table // lower-case name
}

// Fault describes what to do to a statement.
type Fault struct {
	// Kind: "" none, "error" (MySQL error Num), "badconn" (driver.ErrBadConn, connection dies),
	// "invalidconn" (mysql.ErrInvalidConn after the statement was applied, connection dies),
	// "slow" (delay only)
	Kind  string
	Num   int
	Msg   string
	Delay time.Duration
}

// Hook is the seam to the simulator: called before every statement reaches
// the engine (outside any simdb lock). It may park the calling goroutine and
// may return a fault.
type Hook interface {
	BeforeStmt(connID int, class string, sql string) *Fault
	// LockWait is called when a statement has to wait for a row lock; it
	// returns after the lock may be available again or the wait timed out.
	LockWait(connID int, wake <-chan struct{}, timeout time.Duration) (timedOut bool)
	Logf(format string, a ...any) uint64
}

type JEntry struct {
	Seq        uint64
	Conn       int
	Txn        int
	Kind       string // BEGIN COMMIT ROLLBACK EXEC QUERY PREPARE XA CONNECT CLOSE RESET VALID SAVEPOINT
	Class      string
	SQL        string
	Args       []interface{}
	Err        string
	Affected   int64
	LastID     int64
	NRows      int
	Writes     []RowWrite // for COMMIT (and XA COMMIT, auto-commit statements): what became durable
	StmtWrites []RowWrite // rows changed by this statement as seen by its transaction
	InTxn      bool       // connection was inside a transaction after this entry
	Notes      []string   // e.g. "dup-on-other-row" (INSERT ... ON DUPLICATE KEY UPDATE)
}

type RowWrite struct {
	Table  string
	Key    string
	Before Row
	After  Row
}

type Server struct {
	mu       simkit.QuietMutex
	Name     string
	Version  string
	schemas  map[string]*Schema
	conns    map[int]*Conn
	nextConn int
	nextTxn  int
	locks    map[string]*Txn // table|pk -> owner
	waits    map[*Txn]*Txn   // waiter -> owner (wait-for graph)
	wakeups  []chan struct{}
	Hook     Hook
	Journal  []JEntry
	// LockWaitTimeout of the simulated server.
	LockWaitTimeout time.Duration
	xaPrepared      map[string]*Txn // detached prepared XA branches by xid text
	ConnectFaults   int             // fail that many Connects
	Vars            map[string]string
	now             func() time.Time
	Concurrent      bool // C20 mode: no parking
}

func NewServer(name, version string) *Server {
	return &Server{Name: name, Version: version, schemas: map[string]*Schema{}, conns: map[int]*Conn{}, locks: map[string]*Txn{},
		waits: map[*Txn]*Txn{}, LockWaitTimeout: 50 * time.Second, xaPrepared: map[string]*Txn{},
		Vars: map[string]string{"auto_increment_increment": "1", "autocommit": "ON"}, now: time.Now}
}

// nextAuto: the next generated AUTO_INCREMENT value after cur under the
// server's auto_increment_increment (offset 1): 1, 1+n, 1+2n, ...
func (s *Server) nextAuto(cur int64) int64 {
	step, _ := strconv.ParseInt(s.Vars["auto_increment_increment"], 10, 64)
	if step <= 1 || cur < 0 {
		return cur + 1
	}
	return (cur+step-1)/step*step + 1
}

func (s *Server) logf(format string, a ...any) uint64 {
	if s.Hook != nil {
		return s.Hook.Logf(format, a...)
	}
	return 0
}

// logq logs a line that no scheduling decision depends on (pool housekeeping,
// connection set-up, metadata queries of the client's background goroutines):
// it gets its place in the event sequence but stays out of the trace hash,
// because two client goroutines woken by timers at the same simulated instant
// write such lines in an order nobody controls.
func (s *Server) logq(format string, a ...any) uint64 {
	if q, ok := s.Hook.(interface {
		LogfQuiet(format string, a ...any) uint64
	}); ok {
		return q.LogfQuiet(format, a...)
	}
	return s.logf(format, a...)
}

func (s *Server) journal(e JEntry) {
	s.Journal = append(s.Journal, e)
}

// CreateTable registers a table (programmatic DDL).
func (s *Server) CreateTable(schema, name string, cols []*Column, pk []string, idx []*Index) *Table {
	s.mu.Lock()
	defer s.mu.Unlock()
	return s.createTableLocked(schema, name, cols, pk, idx)
}

func (s *Server) createTableLocked(schema, name string, cols []*Column, pk []string, idx []*Index) *Table {
	sc := s.schemas[strings.ToLower(schema)]
	if sc == nil {
		sc = &Schema{Name: schema, Tables: map[string]*Table{}}
		s.schemas[strings.ToLower(schema)] = sc
	}
	t := &Table{Schema: schema, Name: name, Cols: cols, colIdx: map[string]int{}, rows: map[string]Row{}}
	for i, c := range cols {
		t.colIdx[strings.ToLower(c.Name)] = i
	}
	for _, p := range pk {
		i, ok := t.Col(p)
		if !ok {
			panic("simdb: unknown pk column " + p)
		}
		t.PK = append(t.PK, i)
		cols[i].NotNull = true
	}
	if len(pk) > 0 {
		t.Indexes = append(t.Indexes, &Index{Name: "PRIMARY", Cols: pk, Unique: true, Primary: true})
	}
	t.Indexes = append(t.Indexes, idx...)
	sc.Tables[strings.ToLower(name)] = t
	return t
}

func (s *Server) DropTable(schema, name string) {
	s.mu.Lock()
	defer s.mu.Unlock()
	if sc := s.schemas[strings.ToLower(schema)]; sc != nil {
		delete(sc.Tables, strings.ToLower(name))
	}
}

func (s *Server) table(schema, name string) *Table {
	sc := s.schemas[strings.ToLower(schema)]
	if sc == nil {
		return nil
	}
	return sc.Tables[strings.ToLower(strings.Trim(strings.TrimSpace(name), "`"))]
}

// Table returns a table for oracle use.
func (s *Server) Table(schema, name string) *Table {
	s.mu.Lock()
	defer s.mu.Unlock()
	return s.table(schema, name)
}

// ---- oracle services -------------------------------------------------------------

// Snapshot is a deep copy of the committed contents of every table.
type Snapshot map[string]map[string]Row // "schema.table" -> pk key -> row

func (s *Server) Snapshot() Snapshot {
	s.mu.Lock()
	defer s.mu.Unlock()
	out := Snapshot{}
	for _, sc := range s.schemas {
		for _, t := range sc.Tables {
			m := map[string]Row{}
			for k, r := range t.rows {
				m[k] = r.clone()
			}
			out[strings.ToLower(sc.Name+"."+t.Name)] = m
		}
	}
	return out
}

func RowsEqual(a, b Row) bool {
	if len(a) != len(b) {
		return false
	}
	for i := range a {
		if !Equal(a[i], b[i]) {
			return false
		}
	}
	return true
}

type DiffEntry struct {
	Table  string
	Key    string
	Before Row // nil = did not exist
	After  Row // nil = does not exist
}

// Diff lists the rows that differ between two snapshots, sorted.
func Diff(a, b Snapshot) []DiffEntry {
	var out []DiffEntry
	tables := map[string]bool{}
	for t := range a {
		tables[t] = true
	}
	for t := range b {
		tables[t] = true
	}
	for t := range tables {
		for k, ra := range a[t] {
			rb, ok := b[t][k]
			if !ok {
				out = append(out, DiffEntry{t, k, ra, nil})
			} else if !RowsEqual(ra, rb) {
				out = append(out, DiffEntry{t, k, ra, rb})
			}
		}
		for k, rb := range b[t] {
			if _, ok := a[t][k]; !ok {
				out = append(out, DiffEntry{t, k, nil, rb})
			}
		}
	}
	sort.Slice(out, func(i, j int) bool {
		if out[i].Table != out[j].Table {
			return out[i].Table < out[j].Table
		}
		return out[i].Key < out[j].Key
	})
	return out
}

func FormatRow(r Row) string {
	if r == nil {
		return "<absent>"
	}
	parts := make([]string, len(r))
	for i, v := range r {
		parts[i] = FormatVal(v)
	}
	return "(" + strings.Join(parts, ", ") + ")"
}

func (d DiffEntry) String() string {
	return fmt.Sprintf("%s[%s]: %s -> %s", d.Table, d.Key, FormatRow(d.Before), FormatRow(d.After))
}

// ConnStates reports, per open connection, whether it is inside a transaction.
type ConnState struct {
	ID      int
	InTxn   bool
	XAState string
	Closed  bool
	Locks   int
}

func (s *Server) ConnStates() []ConnState {
	s.mu.Lock()
	defer s.mu.Unlock()
	var out []ConnState
	for _, c := range s.conns {
		st := ConnState{ID: c.id, Closed: c.closed}
		if c.txn != nil {
			st.InTxn = c.txn.explicit
			st.XAState = c.txn.xaState
			st.Locks = len(c.txn.locks)
		}
		out = append(out, st)
	}
	sort.Slice(out, func(i, j int) bool { return out[i].ID < out[j].ID })
	return out
}

func (s *Server) OpenConns() int {
	s.mu.Lock()
	defer s.mu.Unlock()
	n := 0
	for _, c := range s.conns {
		if !c.closed {
			n++
		}
	}
	return n
}

// PreparedXA lists the xid texts of prepared (detached or attached) XA branches.
func (s *Server) PreparedXA() []string {
	s.mu.Lock()
	defer s.mu.Unlock()
	var out []string
	for k := range s.xaPrepared {
		out = append(out, k)
	}
	for _, c := range s.conns {
		if c.txn != nil && c.txn.xaState == "PREPARED" {
			out = append(out, c.txn.xaID)
		}
	}
	sort.Strings(out)
	return out
}

// ---- transactions and locks ---------------------------------------------------------

type savepoint struct {
	name    string
	overlay map[*Table]map[string]Row
	nlocks  int
}

type Txn struct {
	id       int
	conn     *Conn
	explicit bool                      // BEGIN / autocommit=0 / XA
	overlay  map[*Table]map[string]Row // nil row = deleted
	locks    []string
	lockSet  map[string]bool
	saves    []savepoint
	xaState  string // "", ACTIVE, IDLE, PREPARED
	xaID     string
	readOnly bool
	started  uint64
}

func (s *Server) newTxn(c *Conn, explicit bool) *Txn {
	s.nextTxn++
	return &Txn{id: s.nextTxn, conn: c, explicit: explicit, overlay: map[*Table]map[string]Row{}, lockSet: map[string]bool{}}
}

// visible returns the row with key k as seen by txn (own writes over committed).
func (t *Txn) visible(tab *Table, k string) (Row, bool) {
	if t != nil {
		if ov, ok := t.overlay[tab]; ok {
			if r, ok := ov[k]; ok {
				return r, r != nil
			}
		}
	}
	r, ok := tab.rows[k]
	return r, ok
}

// scan returns all rows visible to txn in primary-key order.
func (t *Txn) scan(tab *Table) (keys []string, rows []Row) {
	seen := map[string]bool{}
	if t != nil {
		for k, r := range t.overlay[tab] {
			seen[k] = true
			if r != nil {
				keys = append(keys, k)
			}
		}
	}
	for k := range tab.rows {
		if !seen[k] {
			keys = append(keys, k)
		}
	}
	sort.Strings(keys)
	for _, k := range keys {
		r, _ := t.visible(tab, k)
		rows = append(rows, r)
	}
	return
}

func (t *Txn) write(tab *Table, k string, r Row) {
	ov := t.overlay[tab]
	if ov == nil {
		ov = map[string]Row{}
		t.overlay[tab] = ov
	}
	ov[k] = r
}

func lockName(tab *Table, k string) string {
	return strings.ToLower(tab.Schema+"."+tab.Name) + "|" + k
}

// tryLock: returns owner txn if the lock is held by someone else.
func (s *Server) tryLock(t *Txn, name string) *Txn {
	if o, ok := s.locks[name]; ok && o != t {
		return o
	}
	if !t.lockSet[name] {
		s.locks[name] = t
		t.lockSet[name] = true
		t.locks = append(t.locks, name)
	}
	return nil
}

func (s *Server) releaseLocks(t *Txn, from int) {
	for _, n := range t.locks[from:] {
		if s.locks[n] == t {
			delete(s.locks, n)
		}
		delete(t.lockSet, n)
	}
	t.locks = t.locks[:from]
	for _, w := range s.wakeups {
		close(w)
	}
	s.wakeups = nil
}

// deadlock: would waiter waiting for owner close a cycle?
func (s *Server) deadlock(waiter, owner *Txn) bool {
	seen := map[*Txn]bool{}
	for o := owner; o != nil; o = s.waits[o] {
		if o == waiter {
			return true
		}
		if seen[o] {
			return false
		}
		seen[o] = true
	}
	return false
}

// commitTxn makes the overlay durable; returns the write set.
func (s *Server) commitTxn(t *Txn) []RowWrite {
	var ws []RowWrite
	var tabs []*Table
	for tab := range t.overlay {
		tabs = append(tabs, tab)
	}
	sort.Slice(tabs, func(i, j int) bool { return tabs[i].Name < tabs[j].Name })
	for _, tab := range tabs {
		ov := t.overlay[tab]
		var keys []string
		for k := range ov {
			keys = append(keys, k)
		}
		sort.Strings(keys)
		for _, k := range keys {
			r := ov[k]
			before, had := tab.rows[k]
			if r == nil {
				if had {
					delete(tab.rows, k)
					ws = append(ws, RowWrite{strings.ToLower(tab.Schema + "." + tab.Name), k, before, nil})
				}
				continue
			}
			if !had || !RowsEqual(before, r) {
				var b Row
				if had {
					b = before
				}
				ws = append(ws, RowWrite{strings.ToLower(tab.Schema + "." + tab.Name), k, b, r.clone()})
			}
			tab.rows[k] = r
		}
	}
	t.overlay = map[*Table]map[string]Row{}
	t.saves = nil
	s.releaseLocks(t, 0)
	return ws
}

func (s *Server) rollbackTxn(t *Txn) {
	t.overlay = map[*Table]map[string]Row{}
	t.saves = nil
	s.releaseLocks(t, 0)
}

func copyOverlay(o map[*Table]map[string]Row) map[*Table]map[string]Row {
	out := map[*Table]map[string]Row{}
	for t, m := range o {
		mm := map[string]Row{}
		for k, r := range m {
			mm[k] = r
		}
		out[t] = mm
	}
	return out
}

// LoadRows replaces the committed contents of a table (harness use; values are
// coerced like an INSERT would).
func (s *Server) LoadRows(schema, table string, rows [][]interface{}) error {
	s.mu.Lock()
	defer s.mu.Unlock()
	t := s.table(schema, table)
	if t == nil {
		return fmt.Errorf("no table %s.%s", schema, table)
	}
	t.rows = map[string]Row{}
	t.autoInc = 0
	for _, in := range rows {
		if len(in) != len(t.Cols) {
			return fmt.Errorf("row has %d values, table %s has %d columns", len(in), table, len(t.Cols))
		}
		r := make(Row, len(in))
		for i, v := range in {
			cv, serr := t.Cols[i].coerce(normArg(v))
			if serr != nil {
				return fmt.Errorf("%s", serr.msg)
			}
			if cv == nil && t.Cols[i].NotNull {
				return fmt.Errorf("column %s cannot be null", t.Cols[i].Name)
			}
			r[i] = cv
			if t.Cols[i].AutoInc {
				if iv, _ := toInt(cv); iv > t.autoInc {
					t.autoInc = iv
				}
			}
		}
		k := t.pkKey(r)
		if len(t.PK) == 0 {
			t.hidden++
			k = fmt.Sprintf("r%020d|", t.hidden)
		}
		if _, dup := t.rows[k]; dup {
			return fmt.Errorf("duplicate primary key in initial rows of %s", table)
		}
		t.rows[k] = r
	}
	return nil
}

// Columns returns the column definitions of a table.
func (t *Table) Columns() []*Column { return t.Cols }

// PKNames returns the primary key column names in key order.
func (t *Table) PKNames() []string {
	var out []string
	for _, i := range t.PK {
		out = append(out, t.Cols[i].Name)
	}
	return out
}

// PKIdx returns the primary key column indexes.
func (t *Table) PKIdx() []int { return t.PK }

// CoerceFor converts v as column i of t would store it.
func (t *Table) CoerceFor(i int, v interface{}) (interface{}, error) {
	cv, serr := t.Cols[i].coerce(normArg(v))
	if serr != nil {
		return nil, fmt.Errorf("%s", serr.msg)
	}
	return cv, nil
}

// JournalFrom returns the journal entries appended since index n.
func (s *Server) JournalFrom(n int) []JEntry {
	s.mu.Lock()
	defer s.mu.Unlock()
	if n > len(s.Journal) {
		n = len(s.Journal)
	}
	return append([]JEntry(nil), s.Journal[n:]...)
}

func (s *Server) JournalLen() int {
	s.mu.Lock()
	defer s.mu.Unlock()
	return len(s.Journal)
}

// KillIdleTxns rolls back every open transaction and releases all locks
// (harness use between episodes after a violation-free run should find none).
// KillIdle kills every hooked connection that is not inside a transaction (a
// server restart / network cut seen by an idle pool); it returns their number.
func (s *Server) KillIdle() int {
	s.mu.Lock()
	defer s.mu.Unlock()
	n := 0
	for _, c := range s.conns {
		if c.noHook || c.closed || c.txn != nil {
			continue
		}
		c.kill()
		n++
	}
	return n
}

// AbortLeftovers is the operator cleaning up between episodes: every prepared
// XA branch (detached or still attached to a session) and every transaction
// left open is rolled back and its locks released, so that what one episode
// left behind (and was judged for) does not block the next one. It returns
// the number of branches / transactions it removed.
func (s *Server) AbortLeftovers() int {
	s.mu.Lock()
	defer s.mu.Unlock()
	n := 0
	for id, t := range s.xaPrepared {
		s.rollbackTxn(t)
		delete(s.xaPrepared, id)
		n++
	}
	for _, c := range s.conns {
		if c.noHook || c.closed || c.txn == nil {
			continue
		}
		if c.txn.explicit || c.txn.xaState != "" {
			s.rollbackTxn(c.txn)
			c.txn = nil
			n++
		}
	}
	return n
}

func (s *Server) OpenTxnCount() int {
	s.mu.Lock()
	defer s.mu.Unlock()
	n := 0
	for _, c := range s.conns {
		if !c.closed && c.txn != nil && c.txn.explicit {
			n++
		}
	}
	return n
}
