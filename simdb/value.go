// Package simdb is a deliberately small in-memory MySQL look-alike behind a
// database/sql/driver implementation that mimics go-sql-driver/mysql v1.6.0
// (value kinds per protocol, column type names, error types). It is a MODEL
// of MySQL used as the third party of the seata-go simulation; see
// /verif/DESIGN.md section 2.5 and 9.
package simdb

import (
	"bytes"
	"encoding/binary"
	"fmt"
	"math"
	"strconv"
	"strings"
	"time"
)

// Stored Go kinds: nil, int64, uint64, float32 (FLOAT), float64 (DOUBLE),
// string (CHAR/VARCHAR/TEXT/DECIMAL/JSON/TIME/ENUM), []byte (BINARY/BLOB/BIT),
// time.Time (DATE/DATETIME/TIMESTAMP, UTC).

type Column struct {
	Name       string
	DataType   string // information_schema DATA_TYPE, lower case: int, bigint, varchar, ...
	ColumnType string // e.g. varchar(64), int unsigned, decimal(10,2)
	Len        int
	Scale      int
	Unsigned   bool
	NotNull    bool
	HasDefault bool
	Default    interface{} // already coerced; nil with HasDefault = DEFAULT NULL
	DefaultNow bool        // CURRENT_TIMESTAMP
	OnUpdNow   bool
	AutoInc    bool
}

func (c *Column) class() string {
	switch c.DataType {
	case "tinyint", "smallint", "mediumint", "int", "integer", "bigint", "year":
		return "int"
	case "float":
		return "float"
	case "double", "real":
		return "double"
	case "decimal", "numeric":
		return "decimal"
	case "char", "varchar", "text", "tinytext", "mediumtext", "longtext", "enum", "set", "json", "time":
		return "string"
	case "binary", "varbinary", "blob", "tinyblob", "mediumblob", "longblob":
		return "bytes"
	case "bit":
		return "bit"
	case "date", "datetime", "timestamp":
		return "time"
	}
	return "string"
}

// MySQLError number constants used by the model.
const (
	ErDupEntry        = 1062
	ErNoSuchTable     = 1146
	ErBadField        = 1054
	ErBadNull         = 1048
	ErParse           = 1064
	ErLockWaitTimeout = 1205
	ErLockDeadlock    = 1213
	ErDataTooLong     = 1406
	ErOutOfRange      = 1264
	ErTruncated       = 1292
	ErXaerNota        = 1397
	ErXaerInval       = 1398
	ErXaerRmfail      = 1399
	ErXaerOutside     = 1400
	ErXaerDupid       = 1440
	ErNoDefault       = 1364
	ErUnknown         = 1105
)

func isNumericKind(v interface{}) bool {
	switch v.(type) {
	case int64, uint64, float32, float64:
		return true
	}
	return false
}

func toFloat(v interface{}) (float64, bool) {
	switch x := v.(type) {
	case int64:
		return float64(x), true
	case uint64:
		return float64(x), true
	case float32:
		return float64(x), true
	case float64:
		return x, true
	case string:
		return parseFloatPrefix(x), true
	case []byte:
		return parseFloatPrefix(string(x)), true
	case bool:
		if x {
			return 1, true
		}
		return 0, true
	case time.Time:
		f, _ := strconv.ParseFloat(x.Format("20060102150405"), 64)
		return f, true
	}
	return 0, false
}

// parseFloatPrefix mimics MySQL's lenient string->number conversion.
func parseFloatPrefix(s string) float64 {
	s = strings.TrimSpace(s)
	end := 0
	seenDot, seenE, seenDigit := false, false, false
	for i := 0; i < len(s); i++ {
		c := s[i]
		switch {
		case c >= '0' && c <= '9':
			seenDigit = true
			end = i + 1
		case (c == '+' || c == '-') && (i == 0 || s[i-1] == 'e' || s[i-1] == 'E'):
		case c == '.' && !seenDot && !seenE:
			seenDot = true
		case (c == 'e' || c == 'E') && seenDigit && !seenE:
			seenE = true
		default:
			i = len(s)
		}
	}
	if end == 0 {
		return 0
	}
	f, err := strconv.ParseFloat(s[:end], 64)
	if err != nil {
		return 0
	}
	return f
}

func toInt(v interface{}) (int64, bool) {
	switch x := v.(type) {
	case int64:
		return x, true
	case uint64:
		if x > math.MaxInt64 {
			return math.MaxInt64, true
		}
		return int64(x), true
	case float32:
		return int64(math.RoundToEven(float64(x))), true
	case float64:
		return int64(math.RoundToEven(x)), true
	case bool:
		if x {
			return 1, true
		}
		return 0, true
	case string:
		if i, err := strconv.ParseInt(strings.TrimSpace(x), 10, 64); err == nil {
			return i, true
		}
		return int64(math.RoundToEven(parseFloatPrefix(x))), true
	case []byte:
		return toInt(string(x))
	}
	return 0, false
}

func toStr(v interface{}) string {
	switch x := v.(type) {
	case nil:
		return ""
	case string:
		return x
	case []byte:
		return string(x)
	case int64:
		return strconv.FormatInt(x, 10)
	case uint64:
		return strconv.FormatUint(x, 10)
	case float32:
		return fmtFloat(float64(x), 32)
	case float64:
		return fmtFloat(x, 64)
	case bool:
		if x {
			return "1"
		}
		return "0"
	case time.Time:
		return fmtTime(x, -1)
	}
	return fmt.Sprint(v)
}

func fmtFloat(f float64, bits int) string {
	a := math.Abs(f)
	if a != 0 && (a >= 1e15 || a < 1e-15) {
		return strconv.FormatFloat(f, 'e', -1, bits)
	}
	return strconv.FormatFloat(f, 'f', -1, bits)
}

func fmtTime(t time.Time, fsp int) string {
	if t.IsZero() {
		return "0000-00-00 00:00:00"
	}
	s := t.Format("2006-01-02 15:04:05")
	ns := t.Nanosecond()
	if fsp < 0 {
		if ns != 0 {
			frac := fmt.Sprintf("%06d", ns/1000)
			s += "." + strings.TrimRight(frac, "0")
		}
		return s
	}
	if fsp > 0 {
		s += "." + fmt.Sprintf("%06d", ns/1000)[:fsp]
	}
	return s
}

var timeLayouts = []string{"2006-01-02 15:04:05.999999", "2006-01-02 15:04:05", "2006-01-02T15:04:05.999999Z07:00", "2006-01-02T15:04:05", "2006-01-02", "20060102150405", "20060102"}

func parseTimeVal(s string) (time.Time, bool) {
	s = strings.TrimSpace(s)
	for _, l := range timeLayouts {
		if t, err := time.ParseInLocation(l, s, time.UTC); err == nil {
			return t.UTC(), true
		}
	}
	return time.Time{}, false
}

func roundTime(t time.Time, fsp int) time.Time {
	if fsp < 0 {
		fsp = 0
	}
	if fsp > 6 {
		fsp = 6
	}
	unit := time.Duration(math.Pow10(9 - fsp))
	return t.Round(unit)
}

// decimal canonical string with the given scale (rounded half away from zero
// like MySQL; computed on the decimal string when possible to keep 64-bit
// integers exact).
func canonDecimal(v interface{}, scale int) (string, bool) {
	s := strings.TrimSpace(toStr(v))
	if f, ok := v.(float64); ok {
		s = strconv.FormatFloat(f, 'f', -1, 64)
	}
	if f, ok := v.(float32); ok {
		s = strconv.FormatFloat(float64(f), 'f', -1, 32)
	}
	neg := false
	if strings.HasPrefix(s, "-") {
		neg = true
		s = s[1:]
	} else if strings.HasPrefix(s, "+") {
		s = s[1:]
	}
	if strings.ContainsAny(s, "eE") {
		f, err := strconv.ParseFloat(s, 64)
		if err != nil {
			return "0", false
		}
		s = strconv.FormatFloat(f, 'f', -1, 64)
	}
	ip, fp := s, ""
	if i := strings.IndexByte(s, '.'); i >= 0 {
		ip, fp = s[:i], s[i+1:]
	}
	for _, c := range ip + fp {
		if c < '0' || c > '9' {
			f := parseFloatPrefix(toStr(v))
			return canonDecimal(f, scale)
		}
	}
	if ip == "" {
		ip = "0"
	}
	ip = strings.TrimLeft(ip, "0")
	if ip == "" {
		ip = "0"
	}
	roundUp := false
	if len(fp) > scale {
		roundUp = fp[scale] >= '5'
		fp = fp[:scale]
	}
	for len(fp) < scale {
		fp += "0"
	}
	digits := []byte(ip + fp)
	if roundUp {
		i := len(digits) - 1
		for ; i >= 0; i-- {
			if digits[i] == '9' {
				digits[i] = '0'
			} else {
				digits[i]++
				break
			}
		}
		if i < 0 {
			digits = append([]byte{'1'}, digits...)
		}
	}
	ipLen := len(digits) - scale
	out := string(digits[:ipLen])
	if scale > 0 {
		out += "." + string(digits[ipLen:])
	}
	if neg && strings.Trim(out, "0.") != "" {
		out = "-" + out
	}
	return out, true
}

// Compare returns -1/0/+1 with MySQL-like coercion; null handling is the
// caller's business (both must be non-nil).
func Compare(a, b interface{}) int {
	if ta, ok := a.(time.Time); ok {
		if tb, ok := asTime(b); ok {
			switch {
			case ta.Before(tb):
				return -1
			case ta.After(tb):
				return 1
			}
			return 0
		}
	}
	if tb, ok := b.(time.Time); ok {
		if ta, ok := asTime(a); ok {
			switch {
			case ta.Before(tb):
				return -1
			case ta.After(tb):
				return 1
			}
			return 0
		}
	}
	_, aStr := a.(string)
	_, bStr := b.(string)
	ab, aBytes := a.([]byte)
	bb, bBytes := b.([]byte)
	if (aStr || aBytes) && (bStr || bBytes) {
		if aBytes || bBytes {
			if !aBytes {
				ab = []byte(a.(string))
			}
			if !bBytes {
				bb = []byte(b.(string))
			}
			return bytes.Compare(ab, bb)
		}
		// default collation is case-insensitive, trailing spaces ignored (PAD SPACE)
		sa := strings.ToLower(strings.TrimRight(a.(string), " "))
		sb := strings.ToLower(strings.TrimRight(b.(string), " "))
		return strings.Compare(sa, sb)
	}
	// exact 64-bit integer comparison when both are integers
	ia, aInt := a.(int64)
	ib, bInt := b.(int64)
	ua, aU := a.(uint64)
	ub, bU := b.(uint64)
	switch {
	case aInt && bInt:
		return cmpOrd(ia, ib)
	case aU && bU:
		return cmpOrd(ua, ub)
	case aInt && bU:
		if ia < 0 {
			return -1
		}
		return cmpOrd(uint64(ia), ub)
	case aU && bInt:
		if ib < 0 {
			return 1
		}
		return cmpOrd(ua, uint64(ib))
	}
	// integer vs integer-looking string: compare exactly
	if aInt || aU {
		if s, ok := strOf(b); ok {
			if i, err := strconv.ParseInt(strings.TrimSpace(s), 10, 64); err == nil {
				return Compare(a, i)
			}
			if u, err := strconv.ParseUint(strings.TrimSpace(s), 10, 64); err == nil {
				return Compare(a, u)
			}
		}
	}
	if bInt || bU {
		if s, ok := strOf(a); ok {
			if i, err := strconv.ParseInt(strings.TrimSpace(s), 10, 64); err == nil {
				return Compare(i, b)
			}
			if u, err := strconv.ParseUint(strings.TrimSpace(s), 10, 64); err == nil {
				return Compare(u, b)
			}
		}
	}
	fa, _ := toFloat(a)
	fb, _ := toFloat(b)
	return cmpOrd(fa, fb)
}

func strOf(v interface{}) (string, bool) {
	switch x := v.(type) {
	case string:
		return x, true
	case []byte:
		return string(x), true
	}
	return "", false
}

func cmpOrd[T int64 | uint64 | float64](a, b T) int {
	switch {
	case a < b:
		return -1
	case a > b:
		return 1
	}
	return 0
}

func asTime(v interface{}) (time.Time, bool) {
	switch x := v.(type) {
	case time.Time:
		return x, true
	case string:
		return parseTimeVal(x)
	case []byte:
		return parseTimeVal(string(x))
	}
	return time.Time{}, false
}

// Equal is typed equality of stored values (used by oracles: after MySQL's own
// column coercion).
func Equal(a, b interface{}) bool {
	if a == nil || b == nil {
		return a == nil && b == nil
	}
	switch x := a.(type) {
	case []byte:
		y, ok := b.([]byte)
		return ok && bytes.Equal(x, y)
	case time.Time:
		y, ok := b.(time.Time)
		return ok && x.Equal(y)
	case string:
		y, ok := b.(string)
		return ok && x == y
	case float32:
		y, ok := b.(float32)
		return ok && (x == y || (x != x && y != y))
	case float64:
		y, ok := b.(float64)
		return ok && (x == y || (x != x && y != y))
	}
	return a == b
}

func cloneVal(v interface{}) interface{} {
	if b, ok := v.([]byte); ok {
		return append([]byte(nil), b...)
	}
	return v
}

// FormatVal renders a stored value for logs and dumps.
func FormatVal(v interface{}) string {
	switch x := v.(type) {
	case nil:
		return "NULL"
	case string:
		return strconv.Quote(x)
	case []byte:
		return fmt.Sprintf("x'%x'", x)
	case time.Time:
		return "t'" + fmtTime(x, -1) + "'"
	case float32:
		return fmt.Sprintf("f32(%s)", fmtFloat(float64(x), 32))
	case float64:
		return fmt.Sprintf("f64(%s)", fmtFloat(x, 64))
	case uint64:
		return fmt.Sprintf("u%d", x)
	}
	return fmt.Sprint(v)
}

func bitBytes(u uint64, nbits int) []byte {
	n := (nbits + 7) / 8
	if n <= 0 {
		n = 1
	}
	var b [8]byte
	binary.BigEndian.PutUint64(b[:], u)
	return append([]byte(nil), b[8-n:]...)
}

type sqlErr struct {
	num int
	msg string
}

// coerce converts an input value to the column's stored representation,
// applying MySQL's conversions (strict mode for obviously bad data).
func (c *Column) coerce(v interface{}) (interface{}, *sqlErr) {
	if v == nil {
		return nil, nil
	}
	if b, ok := v.(bool); ok {
		if b {
			v = int64(1)
		} else {
			v = int64(0)
		}
	}
	switch c.class() {
	case "int":
		var lo, hi int64
		var uhi uint64
		switch c.DataType {
		case "tinyint":
			lo, hi, uhi = -128, 127, 255
		case "smallint":
			lo, hi, uhi = -32768, 32767, 65535
		case "mediumint":
			lo, hi, uhi = -8388608, 8388607, 16777215
		case "int", "integer", "year":
			lo, hi, uhi = math.MinInt32, math.MaxInt32, math.MaxUint32
		default:
			lo, hi, uhi = math.MinInt64, math.MaxInt64, math.MaxUint64
		}
		if s, ok := strOf(v); ok {
			ts := strings.TrimSpace(s)
			if c.Unsigned {
				if u, err := strconv.ParseUint(ts, 10, 64); err == nil {
					v = u
				}
			} else if i, err := strconv.ParseInt(ts, 10, 64); err == nil {
				v = i
			}
			if _, still := strOf(v); still {
				if ts == "" || !isNumericString(ts) {
					return nil, &sqlErr{ErTruncated, fmt.Sprintf("Incorrect integer value: '%s' for column '%s' at row 1", s, c.Name)}
				}
				v = parseFloatPrefix(ts)
			}
		}
		if c.Unsigned {
			var u uint64
			switch x := v.(type) {
			case uint64:
				u = x
			case int64:
				if x < 0 {
					return nil, &sqlErr{ErOutOfRange, fmt.Sprintf("Out of range value for column '%s' at row 1", c.Name)}
				}
				u = uint64(x)
			default:
				f, _ := toFloat(v)
				if f < 0 || f > float64(math.MaxUint64) {
					return nil, &sqlErr{ErOutOfRange, fmt.Sprintf("Out of range value for column '%s' at row 1", c.Name)}
				}
				u = uint64(math.RoundToEven(f))
			}
			if u > uhi {
				return nil, &sqlErr{ErOutOfRange, fmt.Sprintf("Out of range value for column '%s' at row 1", c.Name)}
			}
			if u <= math.MaxInt64 {
				return int64(u), nil
			}
			return u, nil
		}
		var i int64
		switch x := v.(type) {
		case int64:
			i = x
		case uint64:
			if x > math.MaxInt64 {
				return nil, &sqlErr{ErOutOfRange, fmt.Sprintf("Out of range value for column '%s' at row 1", c.Name)}
			}
			i = int64(x)
		default:
			f, _ := toFloat(v)
			if f < -9223372036854775808.0 || f >= 9223372036854775808.0 {
				return nil, &sqlErr{ErOutOfRange, fmt.Sprintf("Out of range value for column '%s' at row 1", c.Name)}
			}
			i = int64(math.RoundToEven(f))
		}
		if i < lo || i > hi {
			return nil, &sqlErr{ErOutOfRange, fmt.Sprintf("Out of range value for column '%s' at row 1", c.Name)}
		}
		return i, nil
	case "float":
		f, ok := toFloat(v)
		if s, isS := strOf(v); isS && !isNumericString(strings.TrimSpace(s)) {
			return nil, &sqlErr{ErTruncated, fmt.Sprintf("Data truncated for column '%s' at row 1", c.Name)}
		}
		if !ok {
			f = 0
		}
		return float32(f), nil
	case "double":
		if s, isS := strOf(v); isS {
			ts := strings.TrimSpace(s)
			if !isNumericString(ts) {
				return nil, &sqlErr{ErTruncated, fmt.Sprintf("Data truncated for column '%s' at row 1", c.Name)}
			}
			f, _ := strconv.ParseFloat(ts, 64)
			return f, nil
		}
		f, _ := toFloat(v)
		return f, nil
	case "decimal":
		if s, isS := strOf(v); isS && !isNumericString(strings.TrimSpace(s)) {
			return nil, &sqlErr{ErTruncated, fmt.Sprintf("Incorrect decimal value: '%s' for column '%s' at row 1", s, c.Name)}
		}
		s, _ := canonDecimal(v, c.Scale)
		return s, nil
	case "string":
		s := toStr(v)
		if t, ok := v.(time.Time); ok {
			s = fmtTime(t, -1)
		}
		if c.DataType == "json" {
			return s, nil
		}
		if c.Len > 0 && len([]rune(s)) > c.Len && (c.DataType == "char" || c.DataType == "varchar") {
			return nil, &sqlErr{ErDataTooLong, fmt.Sprintf("Data too long for column '%s' at row 1", c.Name)}
		}
		if c.DataType == "char" {
			s = strings.TrimRight(s, " ")
		}
		return s, nil
	case "bytes":
		var b []byte
		switch x := v.(type) {
		case []byte:
			b = append([]byte(nil), x...)
		default:
			b = []byte(toStr(v))
		}
		if c.Len > 0 && len(b) > c.Len && (c.DataType == "binary" || c.DataType == "varbinary") {
			return nil, &sqlErr{ErDataTooLong, fmt.Sprintf("Data too long for column '%s' at row 1", c.Name)}
		}
		if c.DataType == "binary" && c.Len > 0 {
			for len(b) < c.Len {
				b = append(b, 0)
			}
		}
		return b, nil
	case "bit":
		n := c.Len
		if n <= 0 {
			n = 1
		}
		var u uint64
		switch x := v.(type) {
		case []byte:
			for _, bb := range x {
				u = u<<8 | uint64(bb)
			}
		case string:
			for _, bb := range []byte(x) {
				u = u<<8 | uint64(bb)
			}
		default:
			i, _ := toInt(v)
			u = uint64(i)
		}
		if n < 64 && u >= (uint64(1)<<uint(n)) {
			return nil, &sqlErr{ErDataTooLong, fmt.Sprintf("Data too long for column '%s' at row 1", c.Name)}
		}
		return bitBytes(u, n), nil
	case "time":
		var t time.Time
		switch x := v.(type) {
		case time.Time:
			t = x.UTC()
		default:
			s := toStr(v)
			p, ok := parseTimeVal(s)
			if !ok {
				return nil, &sqlErr{ErTruncated, fmt.Sprintf("Incorrect %s value: '%s' for column '%s' at row 1", c.DataType, s, c.Name)}
			}
			t = p
		}
		if c.DataType == "date" {
			return time.Date(t.Year(), t.Month(), t.Day(), 0, 0, 0, 0, time.UTC), nil
		}
		return roundTime(t, c.Scale), nil
	}
	return v, nil
}

func isNumericString(s string) bool {
	if s == "" {
		return false
	}
	_, err := strconv.ParseFloat(s, 64)
	return err == nil
}
