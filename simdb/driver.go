package simdb

import (
	"context"
	"database/sql"
	"database/sql/driver"
	"encoding/json"
	"errors"
	"fmt"
	"io"
	"math"
	"reflect"
	"regexp"
	"sort"
	"strconv"
	"strings"
	"time"

	"github.com/arana-db/parser/ast"
	"github.com/go-sql-driver/mysql"
)

// Driver is a database/sql/driver.Driver over one simulated server.
type Driver struct {
	Srv *Server
	// NoHook: connections of this driver bypass the simulator hook (harness /
	// foreign-writer connections driven from the scheduler goroutine).
	NoHook bool
}

func (d *Driver) Open(dsn string) (driver.Conn, error) {
	c, err := d.OpenConnector(dsn)
	if err != nil {
		return nil, err
	}
	return c.Connect(context.Background())
}

func (d *Driver) OpenConnector(dsn string) (driver.Connector, error) {
	cfg, err := mysql.ParseDSN(dsn)
	if err != nil {
		return nil, err
	}
	return &Connector{drv: d, cfg: cfg}, nil
}

type Connector struct {
	drv *Driver
	cfg *mysql.Config
}

func (c *Connector) Driver() driver.Driver { return c.drv }

func (c *Connector) Connect(ctx context.Context) (driver.Conn, error) {
	s := c.drv.Srv
	var f *Fault
	if s.Hook != nil && !c.drv.NoHook {
		f = s.Hook.BeforeStmt(-1, "connect", "CONNECT "+c.cfg.DBName)
	}
	s.mu.Lock()
	defer s.mu.Unlock()
	if s.ConnectFaults > 0 && !c.drv.NoHook {
		s.ConnectFaults--
		s.journal(JEntry{Seq: s.logf("DB connect refused"), Conn: -1, Kind: "CONNECT", Err: "refused"})
		return nil, errors.New("dial tcp " + c.cfg.Addr + ": connect: connection refused")
	}
	if f != nil && f.Kind != "" && f.Kind != "slow" {
		s.journal(JEntry{Seq: s.logf("DB connect refused (fault)"), Conn: -1, Kind: "CONNECT", Err: "refused"})
		return nil, errors.New("dial tcp " + c.cfg.Addr + ": connect: connection refused")
	}
	s.nextConn++
	cn := &Conn{srv: s, id: s.nextConn, db: c.cfg.DBName, cfg: c.cfg, noHook: c.drv.NoHook}
	s.conns[cn.id] = cn
	s.journal(JEntry{Seq: s.logq("DB c%d CONNECT db=%s", cn.id, cn.db), Conn: cn.id, Kind: "CONNECT"})
	return cn, nil
}

type Conn struct {
	srv          *Server
	id           int
	db           string
	cfg          *mysql.Config
	txn          *Txn
	closed       bool
	lastInsertID int64
	noHook       bool
}

func (c *Conn) ID() int { return c.id }

var (
	_ driver.Conn               = (*Conn)(nil)
	_ driver.ConnBeginTx        = (*Conn)(nil)
	_ driver.ConnPrepareContext = (*Conn)(nil)
	_ driver.ExecerContext      = (*Conn)(nil)
	_ driver.QueryerContext     = (*Conn)(nil)
	_ driver.Pinger             = (*Conn)(nil)
	_ driver.SessionResetter    = (*Conn)(nil)
	_ driver.Validator          = (*Conn)(nil)
	_ driver.NamedValueChecker  = (*Conn)(nil)
	_ driver.Execer             = (*Conn)(nil)
	_ driver.Queryer            = (*Conn)(nil)
)

// ---- classification ---------------------------------------------------------------------

var (
	reFirst = regexp.MustCompile(`(?is)^\s*([a-z]+)`)
	reTable = regexp.MustCompile("(?is)(?:from|into|update|table)\\s+`?([a-z0-9_$.]+)`?")
)

// Classify returns a coarse statement class used for fault matching and journalling.
func Classify(sql string) string {
	m := reFirst.FindStringSubmatch(sql)
	if m == nil {
		return "other"
	}
	verb := strings.ToLower(m[1])
	up := strings.ToUpper(sql)
	tab := ""
	if t := reTable.FindStringSubmatch(sql); t != nil {
		tab = strings.ToLower(t[1])
		if i := strings.LastIndexByte(tab, '.'); i >= 0 && !strings.HasPrefix(tab, "information_schema") {
			tab = tab[i+1:]
		}
	}
	switch verb {
	case "xa":
		f := strings.Fields(up)
		if len(f) > 1 {
			return "xa-" + strings.ToLower(f[1])
		}
		return "xa"
	case "begin", "start":
		return "begin"
	case "commit":
		return "commit"
	case "rollback":
		if strings.Contains(up, " TO ") {
			return "rollback-to"
		}
		return "rollback"
	case "savepoint", "release":
		return "savepoint"
	case "show", "set", "use":
		return "meta"
	case "create", "drop", "alter", "truncate":
		return "ddl"
	}
	suffix := ""
	switch {
	case strings.HasPrefix(tab, "information_schema"):
		return "meta"
	case strings.Contains(tab, "undo_log"):
		suffix = "-undo"
	case strings.Contains(tab, "tcc_fence_log"):
		suffix = "-fence"
	}
	switch verb {
	case "select":
		if tab == "" {
			return "meta"
		}
		if strings.Contains(up, "FOR UPDATE") {
			return "select-for-update" + suffix
		}
		return "select" + suffix
	case "insert", "replace":
		return "insert" + suffix
	case "update":
		return "update" + suffix
	case "delete":
		return "delete" + suffix
	}
	return "other"
}

// ---- plumbing ------------------------------------------------------------------------------

func (c *Conn) mysqlErr(e *sqlErr) error {
	return &mysql.MySQLError{Number: uint16(e.num), Message: e.msg}
}

// Kill makes the connection die now (process crash / network cut): an open
// transaction is rolled back, a prepared XA branch survives detached.
func (c *Conn) Kill() {
	c.srv.mu.Lock()
	defer c.srv.mu.Unlock()
	c.kill()
}

func (c *Conn) kill() {
	// connection dies: open transaction rolled back, prepared XA survives
	if c.txn != nil {
		if c.txn.xaState == "PREPARED" {
			c.txn.conn = nil
			c.srv.xaPrepared[c.txn.xaID] = c.txn
		} else {
			c.srv.rollbackTxn(c.txn)
		}
		c.txn = nil
	}
	c.closed = true
}

// netWrites folds the row writes of one statement per row: a multi-row INSERT
// ... ON DUPLICATE KEY UPDATE may insert a key and update it again in the same
// statement; what the statement did to the row is first-before -> last-after.
func netWrites(ws []RowWrite) []RowWrite {
	if len(ws) < 2 {
		return ws
	}
	idx := map[string]int{}
	var out []RowWrite
	for _, w := range ws {
		k := w.Table + "\x00" + w.Key
		if i, ok := idx[k]; ok {
			out[i].After = w.After
			continue
		}
		idx[k] = len(out)
		out = append(out, w)
	}
	res := out[:0]
	for _, w := range out {
		if w.Before == nil && w.After == nil {
			continue
		}
		res = append(res, w)
	}
	return res
}

var kvTextRe = regexp.MustCompile(`^[A-Za-z_]+=[^&=]*(&[A-Za-z_]+=[^&=]*)+$`)

func canonKV(a interface{}) interface{} {
	var txt string
	switch x := a.(type) {
	case []byte:
		txt = string(x)
	case string:
		txt = x
	default:
		return a
	}
	if len(txt) > 256 || !kvTextRe.MatchString(txt) {
		return a
	}
	parts := strings.Split(txt, "&")
	sort.Strings(parts)
	if _, isBytes := a.([]byte); isBytes {
		return []byte(strings.Join(parts, "&"))
	}
	return strings.Join(parts, "&")
}

func fmtArgs(args []interface{}) string {
	if len(args) == 0 {
		return ""
	}
	parts := make([]string, len(args))
	for i, a := range args {
		// a k=v&k=v text written from a Go map (the undo-log context) comes in
		// random key order: log it in canonical order so that equal runs hash equal
		a = canonKV(a)
		s := FormatVal(normArg(a))
		if len(s) > 80 {
			s = s[:77] + "..."
		}
		parts[i] = s
	}
	return " [" + strings.Join(parts, " ") + "]"
}

// run executes one client statement (text of one or several SQL statements).
func (c *Conn) run(kind, sqlText string, args []interface{}, binary bool) (*result, error) {
	s := c.srv
	class := Classify(sqlText)
	var f *Fault
	if s.Hook != nil && !c.noHook {
		f = s.Hook.BeforeStmt(c.id, class, sqlText)
	}
	s.mu.Lock()
	if c.closed {
		s.mu.Unlock()
		return nil, driver.ErrBadConn
	}
	je := JEntry{Conn: c.id, Kind: kind, Class: class, SQL: sqlText, Args: append([]interface{}(nil), args...)}
	if c.txn != nil {
		je.Txn = c.txn.id
	}
	if f != nil {
		switch f.Kind {
		case "error":
			if class == "commit" && c.txn != nil && c.txn.xaState == "" {
				// a COMMIT that fails on the server ends the transaction: it is rolled back
				s.rollbackTxn(c.txn)
				c.txn = nil
			}
			je.Err = fmt.Sprintf("injected %d", f.Num)
			je.Seq = s.logf("DB c%d %s %s%s -> injected error %d", c.id, kind, oneLine(first(canonOrGroups(sqlText, args))), fmtArgs(second(canonOrGroups(sqlText, args))), f.Num)
			je.InTxn = c.txn != nil && c.txn.explicit
			s.journal(je)
			s.mu.Unlock()
			msg := f.Msg
			if msg == "" {
				msg = "injected server error"
			}
			return nil, &mysql.MySQLError{Number: uint16(f.Num), Message: msg}
		case "badconn":
			inTxn := c.txn != nil && c.txn.explicit
			c.kill()
			je.Err = "injected connection loss (statement not applied)"
			je.Seq = s.logf("DB c%d %s %s -> connection lost before the statement", c.id, kind, oneLine(first(canonOrGroups(sqlText, args))))
			s.journal(je)
			s.mu.Unlock()
			if inTxn {
				// driver.ErrBadConn ("safe to retry on another connection") inside an
				// open transaction makes database/sql's Conn.close wait for the
				// transaction's own read lock (closemu) - a self-deadlock of the
				// standard library; the real driver reports a connection that dies
				// mid-transaction as ErrInvalidConn in the common case
				return nil, mysql.ErrInvalidConn
			}
			return nil, driver.ErrBadConn
		}
	}
	s.mu.Unlock()

	res, err := c.execWithLockWait(sqlText, args, &je)

	s.mu.Lock()
	defer s.mu.Unlock()
	if err == nil && f != nil && f.Kind == "invalidconn" {
		// the statement was applied but the reply is lost with the connection
		c.kill()
		je.Err = "injected connection loss after the statement was applied"
		je.Seq = s.logf("DB c%d %s %s%s -> applied, then connection lost", c.id, kind, oneLine(first(canonOrGroups(sqlText, args))), fmtArgs(second(canonOrGroups(sqlText, args))))
		s.journal(je)
		return nil, mysql.ErrInvalidConn
	}
	if err != nil {
		je.Err = err.Error()
		je.Seq = s.logf("DB c%d %s %s%s -> %v", c.id, kind, oneLine(first(canonOrGroups(sqlText, args))), fmtArgs(second(canonOrGroups(sqlText, args))), err)
	} else {
		je.Affected, je.LastID, je.NRows = res.affected, res.lastID, len(res.rows)
		je.StmtWrites = netWrites(res.writes)
		je.Notes = res.notes
		if res.isQuery && je.Class == "meta" {
			je.Seq = s.logq("DB c%d %s %s%s -> %d row(s)", c.id, kind, oneLine(sqlText), fmtArgs(args), len(res.rows))
		} else if res.isQuery {
			lt, la := canonOrGroups(sqlText, args)
			je.Seq = s.logf("DB c%d %s %s%s -> %d row(s)", c.id, kind, oneLine(lt), fmtArgs(la), len(res.rows))
		} else {
			je.Seq = s.logf("DB c%d %s %s%s -> affected %d", c.id, kind, oneLine(sqlText), fmtArgs(args), res.affected)
		}
	}
	je.InTxn = c.txn != nil && c.txn.explicit
	s.journal(je)
	return res, err
}

// canonOrGroups puts the OR-ed "(col = ? and col = ?)" groups of a probe
// query (and their arguments) into a fixed order for the log line: the
// client builds them while walking a Go map of the table's indexes, so their
// order is not a function of the seed. Only the text that goes into the
// event log (and the trace hash) is changed, not the journal.
func canonOrGroups(sqlText string, args []interface{}) (string, []interface{}) {
	i := strings.Index(sqlText, " WHERE (")
	if i < 0 || !strings.HasPrefix(strings.TrimSpace(sqlText), "SELECT * FROM ") || !strings.Contains(sqlText, ") OR (") && !strings.Contains(sqlText, ")  OR (") {
		return sqlText, args
	}
	head, where := sqlText[:i+7], strings.TrimSpace(sqlText[i+7:])
	if strings.Contains(where, " IN (") || strings.Contains(strings.ToUpper(where), "FOR UPDATE") {
		return sqlText, args
	}
	parts := regexp.MustCompile(`\)\s+OR\s+\(`).Split(where, -1)
	type grp struct {
		text string
		args []interface{}
	}
	var gs []grp
	used := 0
	for k, p := range parts {
		p = strings.TrimSpace(p)
		if k == 0 {
			p = strings.TrimPrefix(p, "(")
		}
		if k == len(parts)-1 {
			p = strings.TrimSuffix(strings.TrimSpace(p), ")")
		}
		n := strings.Count(p, "?")
		if used+n > len(args) {
			return sqlText, args
		}
		gs = append(gs, grp{strings.Join(strings.Fields(p), " "), args[used : used+n]})
		used += n
	}
	if used != len(args) {
		return sqlText, args
	}
	sort.SliceStable(gs, func(a, b int) bool {
		if gs[a].text != gs[b].text {
			return gs[a].text < gs[b].text
		}
		return fmt.Sprint(gs[a].args) < fmt.Sprint(gs[b].args)
	})
	var texts []string
	var out []interface{}
	for _, g := range gs {
		texts = append(texts, "("+g.text+")")
		out = append(out, g.args...)
	}
	return head + strings.Join(texts, " OR "), out
}

func first(a string, _ []interface{}) string         { return a }
func second(_ string, b []interface{}) []interface{} { return b }

func oneLine(s string) string {
	s = strings.Join(strings.Fields(s), " ")
	if len(s) > 300 {
		s = s[:297] + "..."
	}
	return s
}

func (c *Conn) execWithLockWait(sqlText string, args []interface{}, je *JEntry) (*result, error) {
	s := c.srv
	for {
		s.mu.Lock()
		if c.closed {
			s.mu.Unlock()
			return nil, driver.ErrBadConn
		}
		res, err := c.execText(sqlText, args, je)
		cf, isConflict := err.(*conflict)
		if !isConflict {
			s.mu.Unlock()
			if se, ok := err.(*sqlErr); ok {
				return nil, c.mysqlErr(se)
			}
			if de, ok := err.(*dupErr); ok {
				return nil, c.mysqlErr(&de.sqlErr)
			}
			return res, err
		}
		me := c.txn
		if me == nil {
			s.mu.Unlock()
			return nil, errors.New("simdb: lock conflict without transaction")
		}
		if s.deadlock(me, cf.owner) {
			// the victim's whole transaction is rolled back
			s.rollbackTxn(me)
			if !me.explicit {
				c.txn = nil
			}
			s.mu.Unlock()
			return nil, &mysql.MySQLError{Number: ErLockDeadlock, Message: "Deadlock found when trying to get lock; try restarting transaction"}
		}
		s.waits[me] = cf.owner
		wake := make(chan struct{})
		s.wakeups = append(s.wakeups, wake)
		s.logf("DB c%d waits for a row lock held by c%d", c.id, connID(cf.owner))
		s.mu.Unlock()
		timedOut := false
		if s.Hook != nil && !c.noHook {
			timedOut = s.Hook.LockWait(c.id, wake, s.LockWaitTimeout)
		} else {
			select {
			case <-wake:
			case <-time.After(s.LockWaitTimeout):
				timedOut = true
			}
		}
		s.mu.Lock()
		delete(s.waits, me)
		if timedOut {
			// statement rolled back, transaction and its locks stay
			if !me.explicit {
				s.rollbackTxn(me)
				c.txn = nil
			}
			s.mu.Unlock()
			return nil, &mysql.MySQLError{Number: ErLockWaitTimeout, Message: "Lock wait timeout exceeded; try restarting transaction"}
		}
		s.mu.Unlock()
	}
}

func connID(t *Txn) int {
	if t == nil || t.conn == nil {
		return -1
	}
	return t.conn.id
}

// execText runs the statement text under srv.mu. On *conflict nothing has been changed.
func (c *Conn) execText(sqlText string, args []interface{}, je *JEntry) (*result, error) {
	trim := strings.TrimSpace(sqlText)
	trim = strings.TrimRight(trim, "; \t\n")
	up := strings.ToUpper(trim)
	// statements handled by the hand lexer (the parser rejects some of them)
	switch {
	case strings.HasPrefix(up, "XA "):
		return c.execXA(trim, je)
	case strings.HasPrefix(up, "SAVEPOINT "), strings.HasPrefix(up, "ROLLBACK TO "), strings.HasPrefix(up, "RELEASE SAVEPOINT "):
		return c.execSavepoint(trim)
	case up == "BEGIN" || strings.HasPrefix(up, "START TRANSACTION"):
		return c.execBegin(strings.Contains(up, "READ ONLY"))
	case up == "COMMIT":
		return c.execCommit(je)
	case up == "ROLLBACK":
		return c.execRollback()
	case strings.HasPrefix(up, "SET "):
		if err := c.xaGuard(); err != nil {
			return nil, err
		}
		return &result{}, nil
	case strings.HasPrefix(up, "USE "):
		c.db = strings.Trim(strings.TrimSpace(trim[4:]), "`")
		return &result{}, nil
	case strings.HasPrefix(up, "SHOW VARIABLES"):
		return c.execShowVariables(trim)
	}
	nodes, err := parseSQL(sqlText)
	if err != nil {
		return nil, &sqlErr{ErParse, "You have an error in your SQL syntax; " + firstLine(err.Error())}
	}
	if len(nodes) == 0 {
		return nil, &sqlErr{1065, "Query was empty"}
	}
	if len(nodes) > 1 && !c.cfg.MultiStatements {
		return nil, &sqlErr{ErParse, "You have an error in your SQL syntax; check the manual that corresponds to your MySQL server version for the right syntax to use near the second statement"}
	}
	if err := c.xaGuard(); err != nil {
		return nil, err
	}
	var first *result
	total := &result{}
	for i, n := range nodes {
		res, err := c.execNode(n, args, je)
		if err != nil {
			return nil, err
		}
		if i == 0 {
			first = res
		}
		total.affected += res.affected
		total.writes = append(total.writes, res.writes...)
		if res.lastID != 0 {
			total.lastID = res.lastID
		}
	}
	if len(nodes) == 1 {
		return first, nil
	}
	if first.isQuery {
		return first, nil
	}
	return total, nil
}

func firstLine(s string) string {
	if i := strings.IndexByte(s, '\n'); i >= 0 {
		return s[:i]
	}
	return s
}

// xaGuard: in XA IDLE / PREPARED state ordinary statements are refused.
func (c *Conn) xaGuard() error {
	if c.txn != nil && (c.txn.xaState == "IDLE" || c.txn.xaState == "PREPARED") {
		return &sqlErr{ErXaerRmfail, fmt.Sprintf("XAER_RMFAIL: The command cannot be executed when global transaction is in the  %s state", c.txn.xaState)}
	}
	return nil
}

func (c *Conn) execNode(n ast.StmtNode, args []interface{}, je *JEntry) (*result, error) {
	s := c.srv
	auto := false
	if c.txn == nil {
		c.txn = s.newTxn(c, false)
		auto = true
	} else if !c.txn.explicit && c.txn.xaState == "" {
		// the implicit transaction of an auto-commit statement that had to wait
		// for a lock and is being retried: it still ends with the statement
		auto = true
	}
	nlocks := len(c.txn.locks)
	var res *result
	var err error
	switch st := n.(type) {
	case *ast.SelectStmt:
		res, err = c.doSelect(st, args)
	case *ast.InsertStmt:
		res, err = c.doInsert(st, args)
	case *ast.UpdateStmt:
		res, err = c.doUpdate(st, args)
	case *ast.DeleteStmt:
		res, err = c.doDelete(st, args)
	case *ast.CreateTableStmt:
		res, err = c.doCreateTable(st)
	case *ast.DropTableStmt:
		for _, tn := range st.Tables {
			sch := tn.Schema.O
			if sch == "" {
				sch = c.db
			}
			if s.table(sch, tn.Name.O) == nil && !st.IfExists {
				err = &sqlErr{1051, fmt.Sprintf("Unknown table '%s.%s'", sch, tn.Name.O)}
				break
			}
			if sc := s.schemas[strings.ToLower(sch)]; sc != nil {
				delete(sc.Tables, strings.ToLower(tn.Name.O))
			}
		}
		res = &result{}
	case *ast.BeginStmt:
		if auto {
			c.txn = nil
		}
		return c.execBegin(false)
	case *ast.CommitStmt:
		if auto {
			c.txn = nil
		}
		return c.execCommit(je)
	case *ast.RollbackStmt:
		if auto {
			c.txn = nil
		}
		return c.execRollback()
	case *ast.SetStmt, *ast.UseStmt:
		res = &result{}
	case *ast.ShowStmt:
		if auto {
			c.txn = nil
		}
		return c.execShowVariables(n.Text())
	default:
		err = &sqlErr{ErParse, fmt.Sprintf("simdb: unsupported statement %T", n)}
	}
	if _, isConflict := err.(*conflict); isConflict {
		if auto {
			// keep the partially acquired locks of the auto-commit statement until it is retried
			return nil, err
		}
		return nil, err
	}
	if auto {
		t := c.txn
		c.txn = nil
		if err != nil {
			s.rollbackTxn(t)
			return nil, err
		}
		ws := s.commitTxn(t)
		if je != nil {
			je.Writes = append(je.Writes, ws...)
		}
		return res, nil
	}
	if err != nil {
		// statement-level rollback: nothing was applied (changes are applied at the
		// end of each statement); locks taken by the failed statement stay, as in InnoDB
		_ = nlocks
		return nil, err
	}
	return res, nil
}

func (c *Conn) execBegin(readOnly bool) (*result, error) {
	if c.txn != nil && c.txn.xaState != "" {
		return nil, &sqlErr{ErXaerRmfail, fmt.Sprintf("XAER_RMFAIL: The command cannot be executed when global transaction is in the  %s state", c.txn.xaState)}
	}
	if c.txn != nil {
		// implicit commit of the open transaction
		c.srv.commitTxn(c.txn)
	}
	c.txn = c.srv.newTxn(c, true)
	c.txn.readOnly = readOnly
	return &result{}, nil
}

func (c *Conn) execCommit(je *JEntry) (*result, error) {
	if c.txn != nil && c.txn.xaState != "" {
		return nil, &sqlErr{ErXaerRmfail, fmt.Sprintf("XAER_RMFAIL: The command cannot be executed when global transaction is in the  %s state", c.txn.xaState)}
	}
	if c.txn != nil {
		ws := c.srv.commitTxn(c.txn)
		if je != nil {
			je.Writes = append(je.Writes, ws...)
			je.Txn = c.txn.id
		}
		c.txn = nil
	}
	return &result{}, nil
}

func (c *Conn) execRollback() (*result, error) {
	if c.txn != nil && c.txn.xaState != "" {
		return nil, &sqlErr{ErXaerRmfail, fmt.Sprintf("XAER_RMFAIL: The command cannot be executed when global transaction is in the  %s state", c.txn.xaState)}
	}
	if c.txn != nil {
		c.srv.rollbackTxn(c.txn)
		c.txn = nil
	}
	return &result{}, nil
}

func (c *Conn) execSavepoint(trim string) (*result, error) {
	f := strings.Fields(trim)
	up := strings.ToUpper(trim)
	name := strings.ToLower(strings.Trim(f[len(f)-1], "`;"))
	switch {
	case strings.HasPrefix(up, "SAVEPOINT "):
		if c.txn == nil {
			return &result{}, nil // autocommit: savepoint is discarded immediately
		}
		c.txn.saves = append(c.txn.saves, savepoint{name: name, overlay: copyOverlay(c.txn.overlay), nlocks: len(c.txn.locks)})
		return &result{}, nil
	case strings.HasPrefix(up, "ROLLBACK TO "):
		if c.txn != nil {
			for i := len(c.txn.saves) - 1; i >= 0; i-- {
				if c.txn.saves[i].name == name {
					sp := c.txn.saves[i]
					c.txn.overlay = copyOverlay(sp.overlay)
					c.txn.saves = c.txn.saves[:i+1]
					// lenient: locks taken after the savepoint are released
					c.srv.releaseLocks(c.txn, sp.nlocks)
					return &result{}, nil
				}
			}
		}
		return nil, &sqlErr{1305, fmt.Sprintf("SAVEPOINT %s does not exist", name)}
	default: // RELEASE SAVEPOINT
		if c.txn != nil {
			for i := len(c.txn.saves) - 1; i >= 0; i-- {
				if c.txn.saves[i].name == name {
					c.txn.saves = c.txn.saves[:i]
					return &result{}, nil
				}
			}
		}
		return nil, &sqlErr{1305, fmt.Sprintf("SAVEPOINT %s does not exist", name)}
	}
}

func (c *Conn) execShowVariables(trim string) (*result, error) {
	res := &result{isQuery: true, cols: []resCol{{Name: "Variable_name"}, {Name: "Value"}}}
	pat := "%"
	if i := strings.Index(strings.ToUpper(trim), "LIKE"); i >= 0 {
		pat = strings.Trim(strings.TrimSpace(trim[i+4:]), "'\"; ")
	}
	var names []string
	for k := range c.srv.Vars {
		names = append(names, k)
	}
	sort.Strings(names)
	for _, k := range names {
		if likeMatch(k, pat, '\\') {
			res.rows = append(res.rows, []interface{}{k, c.srv.Vars[k]})
		}
	}
	if likeMatch("version", pat, '\\') {
		res.rows = append(res.rows, []interface{}{"version", c.srv.Version})
	}
	return res, nil
}

// ---- XA --------------------------------------------------------------------------------------

var reXA = regexp.MustCompile(`(?is)^XA\s+([A-Z]+)\s*(.*)$`)

func versionAtLeast(v string, maj, min, pat int) bool {
	var a, b, c int
	fmt.Sscanf(v, "%d.%d.%d", &a, &b, &c)
	if a != maj {
		return a > maj
	}
	if b != min {
		return b > min
	}
	return c >= pat
}

func (c *Conn) xaExists(id string) bool {
	if _, ok := c.srv.xaPrepared[id]; ok {
		return true
	}
	for _, o := range c.srv.conns {
		if o.txn != nil && o.txn.xaID == id && o.txn.xaState != "" {
			return true
		}
	}
	return false
}

func (c *Conn) execXA(trim string, je *JEntry) (*result, error) {
	m := reXA.FindStringSubmatch(trim)
	if m == nil {
		return nil, &sqlErr{ErParse, "You have an error in your SQL syntax near 'XA'"}
	}
	verb := strings.ToUpper(m[1])
	rest := strings.TrimSpace(m[2])
	s := c.srv
	if verb == "RECOVER" {
		res := &result{isQuery: true, cols: []resCol{{Name: "formatID"}, {Name: "gtrid_length"}, {Name: "bqual_length"}, {Name: "data"}}}
		for _, id := range func() []string {
			var out []string
			for k := range s.xaPrepared {
				out = append(out, k)
			}
			for _, o := range s.conns {
				if o.txn != nil && o.txn.xaState == "PREPARED" {
					out = append(out, o.txn.xaID)
				}
			}
			sort.Strings(out)
			return out
		}() {
			res.rows = append(res.rows, []interface{}{int64(1), int64(len(id)), int64(0), id})
		}
		return res, nil
	}
	// xid text: first quoted string (further parts / flags kept as suffix)
	id, suffix := rest, ""
	if strings.HasPrefix(rest, "'") {
		if j := strings.Index(rest[1:], "'"); j >= 0 {
			id = rest[1 : 1+j]
			suffix = strings.ToUpper(strings.TrimSpace(rest[2+j:]))
		}
	}
	if id == "" {
		return nil, &sqlErr{ErParse, "You have an error in your SQL syntax near 'XA " + verb + "'"}
	}
	own := c.txn != nil && c.txn.xaState != "" && c.txn.xaID == id
	switch verb {
	case "START", "BEGIN":
		if c.txn != nil && c.txn.xaState != "" {
			return nil, &sqlErr{ErXaerRmfail, fmt.Sprintf("XAER_RMFAIL: The command cannot be executed when global transaction is in the  %s state", c.txn.xaState)}
		}
		if c.txn != nil && c.txn.explicit {
			return nil, &sqlErr{ErXaerOutside, "XAER_OUTSIDE: Some work is done outside global transaction"}
		}
		if c.xaExists(id) {
			return nil, &sqlErr{ErXaerDupid, "XAER_DUPID: The XID already exists"}
		}
		c.txn = s.newTxn(c, true)
		c.txn.xaState, c.txn.xaID = "ACTIVE", id
		return &result{}, nil
	case "END":
		if !own {
			if c.txn != nil && c.txn.xaState != "" {
				return nil, &sqlErr{ErXaerNota, "XAER_NOTA: Unknown XID"}
			}
			return nil, &sqlErr{ErXaerRmfail, "XAER_RMFAIL: The command cannot be executed when global transaction is in the  NON-EXISTING state"}
		}
		if c.txn.xaState != "ACTIVE" {
			return nil, &sqlErr{ErXaerRmfail, fmt.Sprintf("XAER_RMFAIL: The command cannot be executed when global transaction is in the  %s state", c.txn.xaState)}
		}
		c.txn.xaState = "IDLE"
		return &result{}, nil
	case "PREPARE":
		if !own {
			if c.txn != nil && c.txn.xaState != "" {
				return nil, &sqlErr{ErXaerNota, "XAER_NOTA: Unknown XID"}
			}
			return nil, &sqlErr{ErXaerRmfail, "XAER_RMFAIL: The command cannot be executed when global transaction is in the  NON-EXISTING state"}
		}
		if c.txn.xaState != "IDLE" {
			return nil, &sqlErr{ErXaerRmfail, fmt.Sprintf("XAER_RMFAIL: The command cannot be executed when global transaction is in the  %s state", c.txn.xaState)}
		}
		c.txn.xaState = "PREPARED"
		if versionAtLeast(s.Version, 8, 0, 29) {
			// xa_detach_on_prepare: the branch no longer belongs to the session
			c.txn.conn = nil
			s.xaPrepared[id] = c.txn
			c.txn = nil
		}
		return &result{}, nil
	case "COMMIT", "ROLLBACK":
		commit := verb == "COMMIT"
		var t *Txn
		if own {
			switch {
			case c.txn.xaState == "PREPARED":
			case c.txn.xaState == "IDLE" && (!commit || strings.Contains(suffix, "ONE PHASE")):
			default:
				return nil, &sqlErr{ErXaerRmfail, fmt.Sprintf("XAER_RMFAIL: The command cannot be executed when global transaction is in the  %s state", c.txn.xaState)}
			}
			if commit && c.txn.xaState == "PREPARED" && strings.Contains(suffix, "ONE PHASE") {
				return nil, &sqlErr{ErXaerInval, "XAER_INVAL: Invalid arguments (or unsupported command)"}
			}
			t = c.txn
			c.txn = nil
		} else {
			if c.txn != nil && c.txn.xaState != "" {
				return nil, &sqlErr{ErXaerRmfail, fmt.Sprintf("XAER_RMFAIL: The command cannot be executed when global transaction is in the  %s state", c.txn.xaState)}
			}
			if c.txn != nil && c.txn.explicit {
				return nil, &sqlErr{ErXaerOutside, "XAER_OUTSIDE: Some work is done outside global transaction"}
			}
			t = s.xaPrepared[id]
			if t == nil {
				return nil, &sqlErr{ErXaerNota, "XAER_NOTA: Unknown XID"}
			}
			delete(s.xaPrepared, id)
		}
		t.xaState = ""
		if commit {
			ws := s.commitTxn(t)
			if je != nil {
				je.Writes = append(je.Writes, ws...)
				je.Txn = t.id
			}
		} else {
			s.rollbackTxn(t)
		}
		return &result{}, nil
	}
	return nil, &sqlErr{ErParse, "You have an error in your SQL syntax near 'XA " + verb + "'"}
}

// ---- information_schema ---------------------------------------------------------------------

func (s *Server) infoTable(name string) *Table {
	switch strings.ToLower(strings.Trim(name, "`")) {
	case "columns":
		cols := []*Column{NewColumn("TABLE_NAME", "varchar(64)"), NewColumn("TABLE_SCHEMA", "varchar(64)"), NewColumn("COLUMN_NAME", "varchar(64)"),
			NewColumn("DATA_TYPE", "varchar(64)"), NewColumn("COLUMN_TYPE", "varchar(64)"), NewColumn("COLUMN_KEY", "varchar(3)"),
			NewColumn("IS_NULLABLE", "varchar(3)"), NewColumn("COLUMN_DEFAULT", "text"), NewColumn("EXTRA", "varchar(256)"), NewColumn("ORDINAL_POSITION", "int")}
		t := &Table{Schema: "information_schema", Name: "COLUMNS", Cols: cols, colIdx: map[string]int{}, rows: map[string]Row{}}
		for i, c := range cols {
			t.colIdx[strings.ToLower(c.Name)] = i
		}
		n := 0
		for _, sc := range s.schemas {
			for _, tab := range sc.Tables {
				for pos, c := range tab.Cols {
					key := ""
					for _, ix := range tab.Indexes {
						for j, cn := range ix.Cols {
							if strings.EqualFold(cn, c.Name) {
								switch {
								case ix.Primary:
									key = "PRI"
								case ix.Unique && key == "" && j == 0:
									key = "UNI"
								case key == "" && j == 0:
									key = "MUL"
								}
							}
						}
					}
					nullable := "YES"
					if c.NotNull {
						nullable = "NO"
					}
					var def interface{}
					if c.DefaultNow {
						def = "CURRENT_TIMESTAMP"
					} else if c.HasDefault && c.Default != nil {
						def = toStr(c.Default)
					}
					extra := ""
					if c.AutoInc {
						extra = "auto_increment"
					}
					if c.OnUpdNow {
						extra = "on update CURRENT_TIMESTAMP"
					}
					n++
					t.rows[fmt.Sprintf("%s|%s|%05d", sc.Name, tab.Name, pos)] = Row{tab.Name, sc.Name, c.Name, c.DataType, c.ColumnType, key, nullable, def, extra, int64(pos + 1)}
				}
			}
		}
		return t
	case "statistics":
		cols := []*Column{NewColumn("INDEX_NAME", "varchar(64)"), NewColumn("COLUMN_NAME", "varchar(64)"), NewColumn("NON_UNIQUE", "int"),
			NewColumn("TABLE_SCHEMA", "varchar(64)"), NewColumn("TABLE_NAME", "varchar(64)"), NewColumn("SEQ_IN_INDEX", "int")}
		t := &Table{Schema: "information_schema", Name: "STATISTICS", Cols: cols, colIdx: map[string]int{}, rows: map[string]Row{}}
		for i, c := range cols {
			t.colIdx[strings.ToLower(c.Name)] = i
		}
		for _, sc := range s.schemas {
			for _, tab := range sc.Tables {
				for ii, ix := range tab.Indexes {
					nu := int64(1)
					if ix.Unique {
						nu = 0
					}
					for j, cn := range ix.Cols {
						// a functional key part (MySQL >= 8.0.13) has no column name
						var colName interface{} = cn
						if cn == "" {
							colName = nil
						}
						t.rows[fmt.Sprintf("%s|%s|%03d|%03d", sc.Name, tab.Name, ii, j)] = Row{ix.Name, colName, nu, sc.Name, tab.Name, int64(j + 1)}
					}
				}
			}
		}
		return t
	case "tables":
		cols := []*Column{NewColumn("TABLE_SCHEMA", "varchar(64)"), NewColumn("TABLE_NAME", "varchar(64)")}
		t := &Table{Schema: "information_schema", Name: "TABLES", Cols: cols, colIdx: map[string]int{}, rows: map[string]Row{}}
		for i, c := range cols {
			t.colIdx[strings.ToLower(c.Name)] = i
		}
		for _, sc := range s.schemas {
			for _, tab := range sc.Tables {
				t.rows[sc.Name+"|"+tab.Name] = Row{sc.Name, tab.Name}
			}
		}
		return t
	}
	return &Table{Schema: "information_schema", Name: name, colIdx: map[string]int{}, rows: map[string]Row{}}
}

// ---- driver.Conn -----------------------------------------------------------------------------

func (c *Conn) Prepare(query string) (driver.Stmt, error) {
	return c.PrepareContext(context.Background(), query)
}

func (c *Conn) PrepareContext(ctx context.Context, query string) (driver.Stmt, error) {
	c.srv.mu.Lock()
	closed := c.closed
	c.srv.mu.Unlock()
	if closed {
		return nil, driver.ErrBadConn
	}
	// the server parses at prepare time: syntax errors surface here
	trim := strings.ToUpper(strings.TrimSpace(query))
	if !(strings.HasPrefix(trim, "XA ") || strings.HasPrefix(trim, "SAVEPOINT") || strings.HasPrefix(trim, "ROLLBACK TO") || strings.HasPrefix(trim, "SHOW") || strings.HasPrefix(trim, "SET ")) {
		nodes, err := parseSQL(query)
		if err != nil {
			return nil, &mysql.MySQLError{Number: ErParse, Message: "You have an error in your SQL syntax; " + firstLine(err.Error())}
		}
		if len(nodes) > 1 {
			return nil, &mysql.MySQLError{Number: ErParse, Message: "You have an error in your SQL syntax; multiple statements cannot be prepared"}
		}
	}
	return &Stmt{conn: c, query: query, nin: strings.Count(stripQuoted(query), "?")}, nil
}

func stripQuoted(q string) string {
	var sb strings.Builder
	var quote byte
	for i := 0; i < len(q); i++ {
		ch := q[i]
		if quote != 0 {
			if ch == '\\' {
				i++
				continue
			}
			if ch == quote {
				quote = 0
			}
			continue
		}
		if ch == '\'' || ch == '"' || ch == '`' {
			quote = ch
			continue
		}
		sb.WriteByte(ch)
	}
	return sb.String()
}

func (c *Conn) Close() error {
	c.srv.mu.Lock()
	defer c.srv.mu.Unlock()
	if !c.closed {
		c.kill()
		c.srv.journal(JEntry{Seq: c.srv.logq("DB c%d CLOSE", c.id), Conn: c.id, Kind: "CLOSE"})
	}
	return nil
}

func (c *Conn) Begin() (driver.Tx, error) {
	return c.BeginTx(context.Background(), driver.TxOptions{})
}

func (c *Conn) BeginTx(ctx context.Context, opts driver.TxOptions) (driver.Tx, error) {
	if ctx.Err() != nil {
		return nil, ctx.Err()
	}
	if sql.IsolationLevel(opts.Isolation) != sql.LevelDefault {
		if _, err := c.run("EXEC", "SET TRANSACTION ISOLATION LEVEL "+sql.IsolationLevel(opts.Isolation).String(), nil, false); err != nil {
			return nil, err
		}
	}
	q := "START TRANSACTION"
	if opts.ReadOnly {
		q = "START TRANSACTION READ ONLY"
	}
	if _, err := c.run("BEGIN", q, nil, false); err != nil {
		return nil, err
	}
	return &Tx{conn: c}, nil
}

type Tx struct{ conn *Conn }

func (t *Tx) Commit() error {
	if t.conn == nil {
		return mysql.ErrInvalidConn
	}
	c := t.conn
	t.conn = nil
	_, err := c.run("COMMIT", "COMMIT", nil, false)
	return err
}

func (t *Tx) Rollback() error {
	if t.conn == nil {
		return mysql.ErrInvalidConn
	}
	c := t.conn
	t.conn = nil
	_, err := c.run("ROLLBACK", "ROLLBACK", nil, false)
	return err
}

func (c *Conn) Ping(ctx context.Context) error {
	c.srv.mu.Lock()
	defer c.srv.mu.Unlock()
	if c.closed {
		return driver.ErrBadConn
	}
	return nil
}

// ResetSession is called by database/sql before a pooled connection is handed out again.
func (c *Conn) ResetSession(ctx context.Context) error {
	c.srv.mu.Lock()
	defer c.srv.mu.Unlock()
	if c.closed {
		return driver.ErrBadConn
	}
	in := c.txn != nil && c.txn.explicit
	c.srv.journal(JEntry{Seq: c.srv.logq("DB c%d RESET (handed out by the pool) in_txn=%v", c.id, in), Conn: c.id, Kind: "RESET", InTxn: in})
	return nil
}

// IsValid is called by database/sql when the connection is put back into the pool.
func (c *Conn) IsValid() bool {
	c.srv.mu.Lock()
	defer c.srv.mu.Unlock()
	in := c.txn != nil && c.txn.explicit
	c.srv.journal(JEntry{Seq: c.srv.logq("DB c%d VALID (returned to the pool) in_txn=%v", c.id, in), Conn: c.id, Kind: "VALID", InTxn: in})
	return !c.closed
}

func (c *Conn) CheckNamedValue(nv *driver.NamedValue) error {
	v, err := converter{}.ConvertValue(nv.Value)
	if err != nil {
		return err
	}
	nv.Value = v
	return nil
}

// converter mirrors go-sql-driver/mysql's statement converter.
type converter struct{}

func (converter) ConvertValue(v interface{}) (driver.Value, error) {
	if driver.IsValue(v) {
		return v, nil
	}
	if vr, ok := v.(driver.Valuer); ok {
		sv, err := callValuerValue(vr)
		if err != nil {
			return nil, err
		}
		if driver.IsValue(sv) {
			return sv, nil
		}
		if u, ok := sv.(uint64); ok {
			return u, nil
		}
		return nil, fmt.Errorf("non-Value type %T returned from Value", sv)
	}
	rv := reflect.ValueOf(v)
	switch rv.Kind() {
	case reflect.Ptr:
		if rv.IsNil() {
			return nil, nil
		}
		return converter{}.ConvertValue(rv.Elem().Interface())
	case reflect.Int, reflect.Int8, reflect.Int16, reflect.Int32, reflect.Int64:
		return rv.Int(), nil
	case reflect.Uint, reflect.Uint8, reflect.Uint16, reflect.Uint32, reflect.Uint64:
		return rv.Uint(), nil
	case reflect.Float32, reflect.Float64:
		return rv.Float(), nil
	case reflect.Bool:
		return rv.Bool(), nil
	case reflect.Slice:
		if rv.Type().Elem().Kind() == reflect.Uint8 {
			return rv.Bytes(), nil
		}
	case reflect.String:
		return rv.String(), nil
	}
	return nil, fmt.Errorf("unsupported type %T, a %s", v, rv.Kind())
}

func callValuerValue(vr driver.Valuer) (v driver.Value, err error) {
	if rv := reflect.ValueOf(vr); rv.Kind() == reflect.Ptr && rv.IsNil() && rv.Type().Elem().Implements(reflect.TypeOf((*driver.Valuer)(nil)).Elem()) {
		return nil, nil
	}
	return vr.Value()
}

// interpolatable mirrors the argument kinds interpolateParams accepts.
func interpolatable(v interface{}) bool {
	switch v.(type) {
	case nil, int64, uint64, float64, bool, time.Time, []byte, string, json.RawMessage:
		return true
	}
	return false
}

func namedToValues(args []driver.NamedValue) []interface{} {
	out := make([]interface{}, len(args))
	for i, a := range args {
		out[i] = a.Value
	}
	return out
}

func (c *Conn) connLevel(kind, query string, vals []interface{}) (*result, error) {
	if len(vals) != 0 {
		if !c.cfg.InterpolateParams {
			return nil, driver.ErrSkip
		}
		if strings.Count(query, "?") != len(vals) {
			return nil, driver.ErrSkip
		}
		for _, v := range vals {
			if !interpolatable(v) {
				return nil, driver.ErrSkip
			}
		}
	}
	return c.run(kind, query, vals, false)
}

func (c *Conn) ExecContext(ctx context.Context, query string, args []driver.NamedValue) (driver.Result, error) {
	if ctx.Err() != nil {
		return nil, ctx.Err()
	}
	res, err := c.connLevel("EXEC", query, namedToValues(args))
	if err != nil {
		return nil, err
	}
	return &execResult{res.affected, res.lastID}, nil
}

func (c *Conn) Exec(query string, args []driver.Value) (driver.Result, error) {
	vals := make([]interface{}, len(args))
	for i, a := range args {
		vals[i] = a
	}
	res, err := c.connLevel("EXEC", query, vals)
	if err != nil {
		return nil, err
	}
	return &execResult{res.affected, res.lastID}, nil
}

func (c *Conn) QueryContext(ctx context.Context, query string, args []driver.NamedValue) (driver.Rows, error) {
	if ctx.Err() != nil {
		return nil, ctx.Err()
	}
	res, err := c.connLevel("QUERY", query, namedToValues(args))
	if err != nil {
		return nil, err
	}
	return c.newRows(res, false), nil
}

func (c *Conn) Query(query string, args []driver.Value) (driver.Rows, error) {
	vals := make([]interface{}, len(args))
	for i, a := range args {
		vals[i] = a
	}
	res, err := c.connLevel("QUERY", query, vals)
	if err != nil {
		return nil, err
	}
	return c.newRows(res, false), nil
}

type execResult struct{ affected, lastID int64 }

func (r *execResult) LastInsertId() (int64, error) { return r.lastID, nil }
func (r *execResult) RowsAffected() (int64, error) { return r.affected, nil }

// ---- Stmt --------------------------------------------------------------------------------------

type Stmt struct {
	conn   *Conn
	query  string
	nin    int
	closed bool
}

func (s *Stmt) Close() error                              { s.closed = true; return nil }
func (s *Stmt) NumInput() int                             { return s.nin }
func (s *Stmt) ColumnConverter(int) driver.ValueConverter { return converter{} }
func (s *Stmt) CheckNamedValue(nv *driver.NamedValue) error {
	return s.conn.CheckNamedValue(nv)
}

func (s *Stmt) Exec(args []driver.Value) (driver.Result, error) {
	vals := make([]interface{}, len(args))
	for i, a := range args {
		vals[i] = a
	}
	if len(vals) != s.nin {
		return nil, fmt.Errorf("sql: expected %d arguments, got %d", s.nin, len(vals))
	}
	res, err := s.conn.run("EXEC", s.query, vals, true)
	if err != nil {
		return nil, err
	}
	return &execResult{res.affected, res.lastID}, nil
}

func (s *Stmt) ExecContext(ctx context.Context, args []driver.NamedValue) (driver.Result, error) {
	if ctx.Err() != nil {
		return nil, ctx.Err()
	}
	vals := namedToValues(args)
	res, err := s.conn.run("EXEC", s.query, vals, true)
	if err != nil {
		return nil, err
	}
	return &execResult{res.affected, res.lastID}, nil
}

func (s *Stmt) Query(args []driver.Value) (driver.Rows, error) {
	vals := make([]interface{}, len(args))
	for i, a := range args {
		vals[i] = a
	}
	res, err := s.conn.run("QUERY", s.query, vals, true)
	if err != nil {
		return nil, err
	}
	return s.conn.newRows(res, true), nil
}

func (s *Stmt) QueryContext(ctx context.Context, args []driver.NamedValue) (driver.Rows, error) {
	if ctx.Err() != nil {
		return nil, ctx.Err()
	}
	res, err := s.conn.run("QUERY", s.query, namedToValues(args), true)
	if err != nil {
		return nil, err
	}
	return s.conn.newRows(res, true), nil
}

// ---- Rows ----------------------------------------------------------------------------------------

type Rows struct {
	cols   []resCol
	rows   [][]interface{}
	pos    int
	binary bool
	conn   *Conn
}

func (c *Conn) newRows(res *result, binary bool) *Rows {
	return &Rows{cols: res.cols, rows: res.rows, binary: binary, conn: c}
}

func (r *Rows) Columns() []string {
	out := make([]string, len(r.cols))
	for i, c := range r.cols {
		out[i] = c.Name
	}
	return out
}
func (r *Rows) Close() error { r.pos = len(r.rows); return nil }

func (r *Rows) Next(dest []driver.Value) error {
	if r.pos >= len(r.rows) {
		return io.EOF
	}
	row := r.rows[r.pos]
	r.pos++
	for i := range dest {
		if i < len(row) {
			dest[i] = r.wire(row[i], r.cols[i].Col)
		}
	}
	return nil
}

// wire renders a stored value the way go-sql-driver/mysql v1.6.0 hands it to
// database/sql: text protocol = []byte for everything but NULL and (with
// parseTime) temporal values; binary protocol = typed.
func (r *Rows) wire(v interface{}, col *Column) driver.Value {
	if v == nil {
		return nil
	}
	parseTime := r.conn.cfg.ParseTime
	if t, ok := v.(time.Time); ok {
		fsp := 0
		isDate := false
		if col != nil {
			fsp = col.Scale
			isDate = col.DataType == "date"
		} else if t.Nanosecond() != 0 {
			fsp = 6
		}
		if parseTime {
			loc := r.conn.cfg.Loc
			if loc == nil {
				loc = time.UTC
			}
			return time.Date(t.Year(), t.Month(), t.Day(), t.Hour(), t.Minute(), t.Second(), t.Nanosecond(), loc)
		}
		if isDate {
			return []byte(t.Format("2006-01-02"))
		}
		return []byte(fmtTime(t, fsp))
	}
	if !r.binary {
		switch x := v.(type) {
		case []byte:
			return append([]byte{}, x...) // an empty value is an empty, non-nil slice (NULL is nil)
		default:
			return []byte(toStr(x))
		}
	}
	switch x := v.(type) {
	case int64:
		return x
	case uint64:
		if x > math.MaxInt64 {
			return x
		}
		return int64(x)
	case float32:
		return x
	case float64:
		return x
	case string:
		return []byte(x)
	case []byte:
		return append([]byte{}, x...)
	}
	return []byte(toStr(v))
}

// column metadata (copied from go-sql-driver/mysql v1.6.0 fields.go)

var (
	scanTypeFloat32   = reflect.TypeOf(float32(0))
	scanTypeFloat64   = reflect.TypeOf(float64(0))
	scanTypeInt8      = reflect.TypeOf(int8(0))
	scanTypeInt16     = reflect.TypeOf(int16(0))
	scanTypeInt32     = reflect.TypeOf(int32(0))
	scanTypeInt64     = reflect.TypeOf(int64(0))
	scanTypeNullFloat = reflect.TypeOf(sql.NullFloat64{})
	scanTypeNullInt   = reflect.TypeOf(sql.NullInt64{})
	scanTypeNullTime  = reflect.TypeOf(sql.NullTime{})
	scanTypeUint8     = reflect.TypeOf(uint8(0))
	scanTypeUint16    = reflect.TypeOf(uint16(0))
	scanTypeUint32    = reflect.TypeOf(uint32(0))
	scanTypeUint64    = reflect.TypeOf(uint64(0))
	scanTypeRawBytes  = reflect.TypeOf(sql.RawBytes{})
	scanTypeUnknown   = reflect.TypeOf(new(interface{}))
)

func (r *Rows) ColumnTypeDatabaseTypeName(i int) string {
	c := r.cols[i].Col
	if c == nil {
		return "VARCHAR"
	}
	n := strings.ToUpper(c.DataType)
	switch n {
	case "INTEGER":
		n = "INT"
	case "NUMERIC":
		n = "DECIMAL"
	}
	if c.Unsigned {
		switch n {
		case "TINYINT", "SMALLINT", "MEDIUMINT", "INT", "BIGINT":
			n = "UNSIGNED " + n
		}
	}
	return n
}

func (r *Rows) ColumnTypeNullable(i int) (nullable, ok bool) {
	c := r.cols[i].Col
	if c == nil {
		return true, true
	}
	return !c.NotNull, true
}

func (r *Rows) ColumnTypePrecisionScale(i int) (int64, int64, bool) {
	c := r.cols[i].Col
	if c == nil {
		return 0, 0, false
	}
	switch c.class() {
	case "decimal":
		return int64(c.Len), int64(c.Scale), true
	case "float", "double":
		return math.MaxInt64, math.MaxInt64, true
	}
	return 0, 0, false
}

func (r *Rows) ColumnTypeScanType(i int) reflect.Type {
	c := r.cols[i].Col
	if c == nil {
		return scanTypeRawBytes
	}
	nn := c.NotNull
	switch c.DataType {
	case "tinyint":
		if nn {
			if c.Unsigned {
				return scanTypeUint8
			}
			return scanTypeInt8
		}
		return scanTypeNullInt
	case "smallint", "year":
		if nn {
			if c.Unsigned {
				return scanTypeUint16
			}
			return scanTypeInt16
		}
		return scanTypeNullInt
	case "mediumint", "int", "integer":
		if nn {
			if c.Unsigned {
				return scanTypeUint32
			}
			return scanTypeInt32
		}
		return scanTypeNullInt
	case "bigint":
		if nn {
			if c.Unsigned {
				return scanTypeUint64
			}
			return scanTypeInt64
		}
		return scanTypeNullInt
	case "float":
		if nn {
			return scanTypeFloat32
		}
		return scanTypeNullFloat
	case "double", "real":
		if nn {
			return scanTypeFloat64
		}
		return scanTypeNullFloat
	case "date", "datetime", "timestamp":
		return scanTypeNullTime
	}
	switch c.class() {
	case "decimal", "string", "bytes", "bit":
		return scanTypeRawBytes
	}
	return scanTypeUnknown
}

// ParseInt helper for oracles.
func ParseInt(s string) int64 { i, _ := strconv.ParseInt(s, 10, 64); return i }
