package simdb

import (
	"fmt"
	"regexp"
	"sort"
	"strconv"
	"strings"
	"sync"
	"time"

	"github.com/arana-db/parser"
	"github.com/arana-db/parser/ast"
	"github.com/arana-db/parser/mysql"
	"github.com/arana-db/parser/opcode"
	"github.com/arana-db/parser/test_driver"
)

type resCol struct {
	Name string
	Col  *Column // nil for computed expressions
}

type result struct {
	cols     []resCol
	rows     [][]interface{}
	affected int64
	lastID   int64
	isQuery  bool
	writes   []RowWrite // rows changed by this statement (before/after as seen by the transaction)
	notes    []string   // facts about the execution worth a line in the journal
}

type parsed struct {
	nodes []ast.StmtNode
	err   error
}

var (
	parseMu    sync.Mutex
	parseCache = map[string]*parsed{}
)

func parseSQL(sql string) ([]ast.StmtNode, error) {
	parseMu.Lock()
	defer parseMu.Unlock()
	if p, ok := parseCache[sql]; ok {
		return p.nodes, p.err
	}
	nodes, _, err := parser.New().Parse(sql, "", "")
	if len(parseCache) > 5000 {
		parseCache = map[string]*parsed{}
	}
	parseCache[sql] = &parsed{nodes, err}
	return nodes, err
}

// conflict is returned (as error) when a row lock is held by another transaction.
type conflict struct{ owner *Txn }

func (c *conflict) Error() string { return "lock conflict" }

type evalCtx struct {
	srv    *Server
	txn    *Txn
	tab    *Table
	row    Row
	args   []interface{}
	now    time.Time
	insRow Row // the row proposed by INSERT (for VALUES(col))
	conn   *Conn
}

func (e *evalCtx) err(num int, f string, a ...any) error {
	return &sqlErr{num, fmt.Sprintf(f, a...)}
}

func (s *sqlErr) Error() string { return fmt.Sprintf("Error %d: %s", s.num, s.msg) }

func truth(v interface{}) (bool, bool) { // value, isNull
	if v == nil {
		return false, true
	}
	switch x := v.(type) {
	case int64:
		return x != 0, false
	case uint64:
		return x != 0, false
	case float64:
		return x != 0, false
	case float32:
		return x != 0, false
	case string:
		return parseFloatPrefix(x) != 0, false
	case []byte:
		return parseFloatPrefix(string(x)) != 0, false
	case time.Time:
		return !x.IsZero(), false
	}
	return false, false
}

func b2i(b bool) interface{} {
	if b {
		return int64(1)
	}
	return int64(0)
}

func datumValue(d *test_driver.Datum) interface{} {
	switch d.Kind() {
	case test_driver.KindNull:
		return nil
	case test_driver.KindInt64:
		return d.GetInt64()
	case test_driver.KindUint64:
		u := d.GetUint64()
		if u <= 1<<63-1 {
			return int64(u)
		}
		return u
	case test_driver.KindFloat32, test_driver.KindFloat64:
		return d.GetFloat64()
	case test_driver.KindString:
		return d.GetString()
	case test_driver.KindBytes:
		return d.GetBytes()
	case test_driver.KindBinaryLiteral, test_driver.KindMysqlBit:
		return []byte(d.GetBinaryLiteral())
	case test_driver.KindMysqlDecimal:
		return string(d.GetMysqlDecimal().ToString())
	}
	return fmt.Sprint(d.GetValue())
}

func (e *evalCtx) eval(n ast.ExprNode) (interface{}, error) {
	switch x := n.(type) {
	case nil:
		return nil, nil
	case *test_driver.ParamMarkerExpr:
		if x.Order < 0 || x.Order >= len(e.args) {
			return nil, e.err(ErUnknown, "parameter %d missing", x.Order)
		}
		return normArg(e.args[x.Order]), nil
	case *test_driver.ValueExpr:
		return datumValue(&x.Datum), nil
	case *ast.ParenthesesExpr:
		return e.eval(x.Expr)
	case *ast.ColumnNameExpr:
		if e.tab == nil {
			return nil, e.err(ErBadField, "Unknown column '%s' in 'field list'", x.Name.Name.O)
		}
		i, ok := e.tab.Col(x.Name.Name.L)
		if !ok {
			return nil, e.err(ErBadField, "Unknown column '%s' in 'where clause'", x.Name.Name.O)
		}
		if e.row == nil {
			return nil, nil
		}
		return e.row[i], nil
	case *ast.UnaryOperationExpr:
		v, err := e.eval(x.V)
		if err != nil || v == nil {
			return nil, err
		}
		switch x.Op {
		case opcode.Minus:
			switch y := v.(type) {
			case int64:
				return -y, nil
			case uint64:
				if y == 1<<63 {
					return int64(-1 << 63), nil
				}
				return -float64(y), nil
			}
			f, _ := toFloat(v)
			return -f, nil
		case opcode.Plus:
			return v, nil
		case opcode.Not, opcode.Not2:
			t, _ := truth(v)
			return b2i(!t), nil
		}
		return nil, e.err(ErParse, "unsupported unary operator %v", x.Op)
	case *ast.BinaryOperationExpr:
		return e.evalBinary(x)
	case *ast.IsNullExpr:
		v, err := e.eval(x.Expr)
		if err != nil {
			return nil, err
		}
		return b2i((v == nil) != x.Not), nil
	case *ast.IsTruthExpr:
		v, err := e.eval(x.Expr)
		if err != nil {
			return nil, err
		}
		t, null := truth(v)
		r := !null && (t == (x.True != 0))
		return b2i(r != x.Not), nil
	case *ast.BetweenExpr:
		v, err := e.eval(x.Expr)
		if err != nil {
			return nil, err
		}
		lo, err := e.eval(x.Left)
		if err != nil {
			return nil, err
		}
		hi, err := e.eval(x.Right)
		if err != nil {
			return nil, err
		}
		if v == nil || lo == nil || hi == nil {
			return nil, nil
		}
		in := Compare(v, lo) >= 0 && Compare(v, hi) <= 0
		return b2i(in != x.Not), nil
	case *ast.PatternInExpr:
		v, err := e.evalMaybeRow(x.Expr)
		if err != nil {
			return nil, err
		}
		sawNull := false
		for _, it := range x.List {
			iv, err := e.evalMaybeRow(it)
			if err != nil {
				return nil, err
			}
			eq, null := rowEq(v, iv)
			if null {
				sawNull = true
			} else if eq {
				return b2i(!x.Not), nil
			}
		}
		if sawNull || isNullish(v) {
			return nil, nil
		}
		return b2i(x.Not), nil
	case *ast.PatternLikeExpr:
		v, err := e.eval(x.Expr)
		if err != nil {
			return nil, err
		}
		p, err := e.eval(x.Pattern)
		if err != nil {
			return nil, err
		}
		if v == nil || p == nil {
			return nil, nil
		}
		m := likeMatch(toStr(v), toStr(p), x.Escape)
		return b2i(m != x.Not), nil
	case *ast.FuncCallExpr:
		return e.evalFunc(x)
	case *ast.ValuesExpr:
		if e.insRow == nil || e.tab == nil {
			return nil, nil
		}
		i, ok := e.tab.Col(x.Column.Name.Name.L)
		if !ok {
			return nil, e.err(ErBadField, "Unknown column '%s' in 'field list'", x.Column.Name.Name.O)
		}
		return e.insRow[i], nil
	case *ast.DefaultExpr:
		if e.tab == nil || x.Name == nil {
			return nil, nil
		}
		i, ok := e.tab.Col(x.Name.Name.L)
		if !ok {
			return nil, e.err(ErBadField, "Unknown column '%s'", x.Name.Name.O)
		}
		return e.defaultOf(e.tab.Cols[i])
	case *ast.VariableExpr:
		name := strings.ToLower(x.Name)
		switch name {
		case "version":
			return e.srv.Version, nil
		case "autocommit":
			return int64(1), nil
		}
		if v, ok := e.srv.Vars[name]; ok {
			return v, nil
		}
		return nil, nil
	case *ast.FuncCastExpr:
		return e.eval(x.Expr)
	case *ast.RowExpr:
		return nil, e.err(ErParse, "Operand should contain 1 column(s)")
	}
	return nil, e.err(ErParse, "simdb: unsupported expression %T", n)
}

func isNullish(v interface{}) bool {
	if v == nil {
		return true
	}
	if r, ok := v.([]interface{}); ok {
		for _, x := range r {
			if x == nil {
				return true
			}
		}
	}
	return false
}

func (e *evalCtx) evalMaybeRow(n ast.ExprNode) (interface{}, error) {
	switch x := n.(type) {
	case *ast.RowExpr:
		out := make([]interface{}, len(x.Values))
		for i, v := range x.Values {
			r, err := e.evalMaybeRow(v)
			if err != nil {
				return nil, err
			}
			out[i] = r
		}
		return out, nil
	case *ast.ParenthesesExpr:
		// (`id`) IN ((?)) : a parenthesised scalar
		return e.evalMaybeRow(x.Expr)
	}
	return e.eval(n)
}

func rowEq(a, b interface{}) (eq bool, null bool) {
	ra, aRow := a.([]interface{})
	rb, bRow := b.([]interface{})
	if aRow != bRow {
		if aRow && len(ra) == 1 {
			return rowEq(ra[0], b)
		}
		if bRow && len(rb) == 1 {
			return rowEq(a, rb[0])
		}
		return false, false
	}
	if aRow {
		if len(ra) != len(rb) {
			return false, false
		}
		for i := range ra {
			q, n := rowEq(ra[i], rb[i])
			if n {
				return false, true
			}
			if !q {
				return false, false
			}
		}
		return true, false
	}
	if a == nil || b == nil {
		return false, true
	}
	return Compare(a, b) == 0, false
}

func likeMatch(s, p string, esc byte) bool {
	if esc == 0 {
		esc = '\\'
	}
	var re strings.Builder
	re.WriteString("(?is)^")
	for i := 0; i < len(p); i++ {
		c := p[i]
		switch {
		case c == esc && i+1 < len(p):
			i++
			re.WriteString(regexp.QuoteMeta(string(p[i])))
		case c == '%':
			re.WriteString(".*")
		case c == '_':
			re.WriteString(".")
		default:
			re.WriteString(regexp.QuoteMeta(string(c)))
		}
	}
	re.WriteString("$")
	ok, _ := regexp.MatchString(re.String(), s)
	return ok
}

func (e *evalCtx) evalBinary(x *ast.BinaryOperationExpr) (interface{}, error) {
	switch x.Op {
	case opcode.LogicAnd, opcode.LogicOr, opcode.LogicXor:
		l, err := e.eval(x.L)
		if err != nil {
			return nil, err
		}
		r, err := e.eval(x.R)
		if err != nil {
			return nil, err
		}
		lt, ln := truth(l)
		rt, rn := truth(r)
		switch x.Op {
		case opcode.LogicAnd:
			if (!ln && !lt) || (!rn && !rt) {
				return int64(0), nil
			}
			if ln || rn {
				return nil, nil
			}
			return int64(1), nil
		case opcode.LogicOr:
			if (!ln && lt) || (!rn && rt) {
				return int64(1), nil
			}
			if ln || rn {
				return nil, nil
			}
			return int64(0), nil
		default:
			if ln || rn {
				return nil, nil
			}
			return b2i(lt != rt), nil
		}
	}
	l, err := e.evalMaybeRow(x.L)
	if err != nil {
		return nil, err
	}
	r, err := e.evalMaybeRow(x.R)
	if err != nil {
		return nil, err
	}
	switch x.Op {
	case opcode.NullEQ:
		if l == nil || r == nil {
			return b2i(l == nil && r == nil), nil
		}
		return b2i(Compare(l, r) == 0), nil
	case opcode.EQ, opcode.NE:
		eq, null := rowEq(l, r)
		if null {
			return nil, nil
		}
		return b2i(eq == (x.Op == opcode.EQ)), nil
	}
	if l == nil || r == nil {
		return nil, nil
	}
	switch x.Op {
	case opcode.LT:
		return b2i(Compare(l, r) < 0), nil
	case opcode.LE:
		return b2i(Compare(l, r) <= 0), nil
	case opcode.GT:
		return b2i(Compare(l, r) > 0), nil
	case opcode.GE:
		return b2i(Compare(l, r) >= 0), nil
	case opcode.Plus, opcode.Minus, opcode.Mul:
		li, lInt := l.(int64)
		ri, rInt := r.(int64)
		if lInt && rInt {
			switch x.Op {
			case opcode.Plus:
				return li + ri, nil
			case opcode.Minus:
				return li - ri, nil
			default:
				return li * ri, nil
			}
		}
		lf, _ := toFloat(l)
		rf, _ := toFloat(r)
		switch x.Op {
		case opcode.Plus:
			return lf + rf, nil
		case opcode.Minus:
			return lf - rf, nil
		default:
			return lf * rf, nil
		}
	case opcode.Div:
		lf, _ := toFloat(l)
		rf, _ := toFloat(r)
		if rf == 0 {
			return nil, nil
		}
		return lf / rf, nil
	case opcode.IntDiv, opcode.Mod:
		li, _ := toInt(l)
		ri, _ := toInt(r)
		if ri == 0 {
			return nil, nil
		}
		if x.Op == opcode.IntDiv {
			return li / ri, nil
		}
		return li % ri, nil
	}
	return nil, e.err(ErParse, "simdb: unsupported operator %v", x.Op)
}

func (e *evalCtx) evalFunc(x *ast.FuncCallExpr) (interface{}, error) {
	name := x.FnName.L
	args := make([]interface{}, len(x.Args))
	for i, a := range x.Args {
		v, err := e.eval(a)
		if err != nil {
			return nil, err
		}
		args[i] = v
	}
	switch name {
	case "now", "current_timestamp", "sysdate", "localtime", "localtimestamp":
		fsp := 0
		if len(args) == 1 {
			i, _ := toInt(args[0])
			fsp = int(i)
		}
		return roundTime(e.now.UTC(), fsp), nil
	case "curdate", "current_date":
		t := e.now.UTC()
		return time.Date(t.Year(), t.Month(), t.Day(), 0, 0, 0, 0, time.UTC), nil
	case "version":
		return e.srv.Version, nil
	case "database", "schema":
		if e.conn != nil {
			return e.conn.db, nil
		}
		return nil, nil
	case "last_insert_id":
		if e.conn != nil {
			return e.conn.lastInsertID, nil
		}
		return int64(0), nil
	case "concat":
		var sb strings.Builder
		for _, a := range args {
			if a == nil {
				return nil, nil
			}
			sb.WriteString(toStr(a))
		}
		return sb.String(), nil
	case "upper", "ucase":
		if len(args) == 1 && args[0] != nil {
			return strings.ToUpper(toStr(args[0])), nil
		}
		return nil, nil
	case "lower", "lcase":
		if len(args) == 1 && args[0] != nil {
			return strings.ToLower(toStr(args[0])), nil
		}
		return nil, nil
	case "ifnull":
		if len(args) == 2 {
			if args[0] != nil {
				return args[0], nil
			}
			return args[1], nil
		}
	case "abs":
		if len(args) == 1 && args[0] != nil {
			if i, ok := args[0].(int64); ok {
				if i < 0 {
					return -i, nil
				}
				return i, nil
			}
			f, _ := toFloat(args[0])
			if f < 0 {
				f = -f
			}
			return f, nil
		}
		return nil, nil
	case "length":
		if len(args) == 1 && args[0] != nil {
			return int64(len(toStr(args[0]))), nil
		}
		return nil, nil
	}
	return nil, e.err(1305, "FUNCTION %s does not exist", x.FnName.O)
}

func (e *evalCtx) defaultOf(c *Column) (interface{}, error) {
	if c.DefaultNow {
		return roundTime(e.now.UTC(), c.Scale), nil
	}
	if c.HasDefault {
		return cloneVal(c.Default), nil
	}
	if !c.NotNull {
		return nil, nil
	}
	if c.AutoInc {
		return nil, nil
	}
	return nil, e.err(ErNoDefault, "Field '%s' doesn't have a default value", c.Name)
}

func normArg(v interface{}) interface{} {
	switch x := v.(type) {
	case int:
		return int64(x)
	case int32:
		return int64(x)
	case int16:
		return int64(x)
	case int8:
		return int64(x)
	case uint32:
		return int64(x)
	case uint16:
		return int64(x)
	case uint8:
		return int64(x)
	case uint:
		return normArg(uint64(x))
	case uint64:
		if x <= 1<<63-1 {
			return int64(x)
		}
		return x
	case float32:
		return float64(x)
	case bool:
		if x {
			return int64(1)
		}
		return int64(0)
	case time.Time:
		return x.UTC()
	}
	return v
}

// ---- table resolution ---------------------------------------------------------------

func tableNameOf(refs *ast.TableRefsClause) (schema, name string, ok bool) {
	if refs == nil || refs.TableRefs == nil {
		return "", "", false
	}
	j := refs.TableRefs
	if j.Right != nil {
		return "", "", false
	}
	ts, isTS := j.Left.(*ast.TableSource)
	if !isTS {
		return "", "", false
	}
	tn, isTN := ts.Source.(*ast.TableName)
	if !isTN {
		return "", "", false
	}
	return tn.Schema.O, tn.Name.O, true
}

func (c *Conn) resolve(schema, name string) (*Table, error) {
	if schema == "" {
		schema = c.db
	}
	if strings.EqualFold(schema, "information_schema") {
		return c.srv.infoTable(name), nil
	}
	t := c.srv.table(schema, name)
	if t == nil {
		return nil, &sqlErr{ErNoSuchTable, fmt.Sprintf("Table '%s.%s' doesn't exist", schema, name)}
	}
	return t, nil
}

// ---- statements -------------------------------------------------------------------------

func (c *Conn) matchRows(e *evalCtx, tab *Table, where ast.ExprNode, order *ast.OrderByClause, limit *ast.Limit) (keys []string, rows []Row, err error) {
	// column references are resolved before any row is looked at (an unknown
	// column fails the statement even when the table is empty)
	if where != nil {
		if err := checkColumns(tab, "where clause", where); err != nil {
			return nil, nil, err
		}
	}
	ks, rs := e.txn.scan(tab)
	for i, r := range rs {
		if where != nil {
			e.row = r
			v, err := e.eval(where)
			if err != nil {
				return nil, nil, err
			}
			if t, null := truth(v); null || !t {
				continue
			}
		}
		keys = append(keys, ks[i])
		rows = append(rows, r)
	}
	e.row = nil
	if order != nil && len(order.Items) > 0 {
		type kr struct {
			k    string
			r    Row
			vals []interface{}
		}
		items := make([]kr, len(rows))
		for i := range rows {
			items[i] = kr{keys[i], rows[i], nil}
			e.row = rows[i]
			for _, it := range order.Items {
				v, err := e.eval(it.Expr)
				if err != nil {
					return nil, nil, err
				}
				items[i].vals = append(items[i].vals, v)
			}
		}
		e.row = nil
		sort.SliceStable(items, func(a, b int) bool {
			for j, it := range order.Items {
				va, vb := items[a].vals[j], items[b].vals[j]
				var cmp int
				switch {
				case va == nil && vb == nil:
					cmp = 0
				case va == nil:
					cmp = -1
				case vb == nil:
					cmp = 1
				default:
					cmp = Compare(va, vb)
				}
				if it.Desc {
					cmp = -cmp
				}
				if cmp != 0 {
					return cmp < 0
				}
			}
			return false
		})
		for i := range items {
			keys[i], rows[i] = items[i].k, items[i].r
		}
	}
	if limit != nil {
		off, cnt := int64(0), int64(-1)
		if limit.Offset != nil {
			v, err := e.eval(limit.Offset)
			if err != nil {
				return nil, nil, err
			}
			off, _ = toInt(v)
		}
		if limit.Count != nil {
			v, err := e.eval(limit.Count)
			if err != nil {
				return nil, nil, err
			}
			cnt, _ = toInt(v)
		}
		if off > int64(len(rows)) {
			off = int64(len(rows))
		}
		keys, rows = keys[off:], rows[off:]
		if cnt >= 0 && cnt < int64(len(rows)) {
			keys, rows = keys[:cnt], rows[:cnt]
		}
	}
	return keys, rows, nil
}

func (c *Conn) lockRows(tab *Table, keys []string) error {
	for _, k := range keys {
		if o := c.srv.tryLock(c.txn, lockName(tab, k)); o != nil {
			return &conflict{o}
		}
	}
	return nil
}

func (c *Conn) doSelect(st *ast.SelectStmt, args []interface{}) (*result, error) {
	e := &evalCtx{srv: c.srv, txn: c.txn, args: args, now: c.srv.now(), conn: c}
	res := &result{isQuery: true}
	if st.From == nil {
		// SELECT expr [, expr]
		row := []interface{}{}
		for _, f := range st.Fields.Fields {
			v, err := e.eval(f.Expr)
			if err != nil {
				return nil, err
			}
			name := f.AsName.O
			if name == "" {
				name = strings.TrimSpace(f.Text())
				if name == "" {
					name = fmt.Sprintf("col%d", len(row))
				}
			}
			res.cols = append(res.cols, resCol{Name: name})
			row = append(row, v)
		}
		res.rows = append(res.rows, row)
		return res, nil
	}
	schema, name, ok := tableNameOf(st.From)
	if !ok {
		return nil, &sqlErr{ErParse, "simdb: only single-table SELECT is supported"}
	}
	tab, err := c.resolve(schema, name)
	if err != nil {
		return nil, err
	}
	e.tab = tab
	// aggregate COUNT(*) only
	if len(st.Fields.Fields) == 1 && st.Fields.Fields[0].Expr != nil {
		if ag, ok := st.Fields.Fields[0].Expr.(*ast.AggregateFuncExpr); ok && strings.EqualFold(ag.F, "count") {
			_, rows, err := c.matchRows(e, tab, st.Where, nil, nil)
			if err != nil {
				return nil, err
			}
			res.cols = []resCol{{Name: "count(*)"}}
			res.rows = [][]interface{}{{int64(len(rows))}}
			return res, nil
		}
	}
	keys, rows, err := c.matchRows(e, tab, st.Where, st.OrderBy, st.Limit)
	if err != nil {
		return nil, err
	}
	if st.LockInfo != nil && (st.LockInfo.LockType == ast.SelectLockForUpdate || st.LockInfo.LockType == ast.SelectLockForShare || st.LockInfo.LockType == ast.SelectLockForUpdateNoWait) && tab.Schema != "information_schema" {
		if err := c.lockRows(tab, keys); err != nil {
			return nil, err
		}
	}
	// projection
	type proj struct {
		idx  int
		expr ast.ExprNode
		name string
	}
	var ps []proj
	for _, f := range st.Fields.Fields {
		if f.WildCard != nil {
			for i, col := range tab.Cols {
				ps = append(ps, proj{idx: i, name: col.Name})
			}
			continue
		}
		if cn, ok := f.Expr.(*ast.ColumnNameExpr); ok {
			if cn.Name.Name.O == "*" {
				for i, col := range tab.Cols {
					ps = append(ps, proj{idx: i, name: col.Name})
				}
				continue
			}
			i, ok := tab.Col(cn.Name.Name.L)
			if !ok {
				return nil, &sqlErr{ErBadField, fmt.Sprintf("Unknown column '%s' in 'field list'", cn.Name.Name.O)}
			}
			nm := tab.Cols[i].Name
			if f.AsName.O != "" {
				nm = f.AsName.O
			}
			ps = append(ps, proj{idx: i, name: nm})
			continue
		}
		nm := f.AsName.O
		if nm == "" {
			nm = strings.TrimSpace(f.Text())
		}
		ps = append(ps, proj{idx: -1, expr: f.Expr, name: nm})
	}
	for _, p := range ps {
		rc := resCol{Name: p.name}
		if p.idx >= 0 {
			rc.Col = tab.Cols[p.idx]
		}
		res.cols = append(res.cols, rc)
	}
	for _, r := range rows {
		out := make([]interface{}, len(ps))
		for i, p := range ps {
			if p.idx >= 0 {
				out[i] = cloneVal(r[p.idx])
			} else {
				e.row = r
				v, err := e.eval(p.expr)
				if err != nil {
					return nil, err
				}
				out[i] = v
			}
		}
		res.rows = append(res.rows, out)
	}
	return res, nil
}

func (c *Conn) checkUnique(tab *Table, self string, r Row, pending map[string]Row) error {
	for _, ix := range tab.Indexes {
		if !ix.Unique || ix.Primary {
			continue
		}
		var idxs []int
		null := false
		for _, cn := range ix.Cols {
			i, _ := tab.Col(cn)
			idxs = append(idxs, i)
			if r[i] == nil {
				null = true
			}
		}
		if null {
			continue
		}
		keys, rows := c.txn.scan(tab)
		// rows the running statement has accepted but not yet applied
		var pks []string
		for k := range pending {
			pks = append(pks, k)
		}
		sort.Strings(pks)
		nScanned := len(keys)
		for _, k := range pks {
			keys = append(keys, k)
			rows = append(rows, pending[k])
		}
		for j, o := range rows {
			if keys[j] == self {
				continue
			}
			if _, replaced := pending[keys[j]]; replaced && j < nScanned {
				continue // the statement has already given this row new values
			}
			same := true
			for _, i := range idxs {
				if o[i] == nil || Compare(o[i], r[i]) != 0 {
					same = false
					break
				}
			}
			if same {
				var vals []string
				for _, i := range idxs {
					vals = append(vals, toStr(r[i]))
				}
				return &dupErr{sqlErr{ErDupEntry, fmt.Sprintf("Duplicate entry '%s' for key '%s.%s'", strings.Join(vals, "-"), tab.Name, ix.Name)}, keys[j]}
			}
		}
	}
	return nil
}

// checkColumns fails when n references a column tab does not have.
func checkColumns(tab *Table, clause string, n ast.Node) error {
	if n == nil {
		return nil
	}
	v := &colChecker{tab: tab, clause: clause}
	n.Accept(v)
	return v.err
}

type colChecker struct {
	tab    *Table
	clause string
	err    error
}

func (v *colChecker) Enter(n ast.Node) (ast.Node, bool) {
	if cn, ok := n.(*ast.ColumnNameExpr); ok && v.err == nil && cn.Name != nil {
		if _, ok := v.tab.Col(cn.Name.Name.L); !ok {
			v.err = &sqlErr{ErBadField, fmt.Sprintf("Unknown column '%s' in '%s'", cn.Name.Name.O, v.clause)}
		}
	}
	return n, false
}

func (v *colChecker) Leave(n ast.Node) (ast.Node, bool) { return n, true }

// uniqueLockNames names the lock of every unique secondary index entry of r.
func uniqueLockNames(tab *Table, r Row) []string {
	var out []string
	for _, ix := range tab.Indexes {
		if !ix.Unique || ix.Primary {
			continue
		}
		var vals []string
		null := false
		for _, cn := range ix.Cols {
			i, _ := tab.Col(cn)
			if r[i] == nil {
				null = true
				break
			}
			vals = append(vals, keyPart(r[i]))
		}
		if !null {
			out = append(out, lockName(tab, "uk:"+strings.ToLower(ix.Name)+":"+strings.Join(vals, "|")))
		}
	}
	return out
}

type dupErr struct {
	sqlErr
	key string // pk key of the conflicting row
}

func (d *dupErr) Error() string { return d.sqlErr.Error() }

func (c *Conn) doInsert(st *ast.InsertStmt, args []interface{}) (*result, error) {
	schema, name, ok := tableNameOf(st.Table)
	if !ok {
		return nil, &sqlErr{ErParse, "simdb: unsupported INSERT target"}
	}
	tab, err := c.resolve(schema, name)
	if err != nil {
		return nil, err
	}
	e := &evalCtx{srv: c.srv, txn: c.txn, tab: tab, args: args, now: c.srv.now(), conn: c}
	// column list
	var colIdx []int
	lists := st.Lists
	if len(st.Setlist) > 0 {
		var one []ast.ExprNode
		for _, a := range st.Setlist {
			i, ok := tab.Col(a.Column.Name.L)
			if !ok {
				return nil, &sqlErr{ErBadField, fmt.Sprintf("Unknown column '%s' in 'field list'", a.Column.Name.O)}
			}
			colIdx = append(colIdx, i)
			one = append(one, a.Expr)
		}
		lists = [][]ast.ExprNode{one}
	} else if len(st.Columns) > 0 {
		for _, cn := range st.Columns {
			i, ok := tab.Col(cn.Name.L)
			if !ok {
				return nil, &sqlErr{ErBadField, fmt.Sprintf("Unknown column '%s' in 'field list'", cn.Name.O)}
			}
			colIdx = append(colIdx, i)
		}
	} else {
		for i := range tab.Cols {
			colIdx = append(colIdx, i)
		}
	}
	if st.Select != nil {
		return nil, &sqlErr{ErParse, "simdb: INSERT ... SELECT is not supported"}
	}
	res := &result{}
	type pending struct {
		key string
		row Row
		old Row // for upsert update
		del string
	}
	var plan []pending
	autoCounter := tab.autoInc
	hidden := tab.hidden
	firstAuto := int64(0)
	autoKeys := map[string]bool{} // rows inserted by this statement under a generated key
	// proposed keys within this statement
	local := map[string]Row{}
	visible := func(k string) (Row, bool) {
		if r, ok := local[k]; ok {
			return r, r != nil
		}
		return c.txn.visible(tab, k)
	}
	for _, vals := range lists {
		if len(vals) != len(colIdx) {
			return nil, &sqlErr{1136, "Column count doesn't match value count at row 1"}
		}
		row := make(Row, len(tab.Cols))
		given := make([]bool, len(tab.Cols))
		autoAssigned := false
		for j, ex := range vals {
			ci := colIdx[j]
			col := tab.Cols[ci]
			var v interface{}
			if _, isDef := ex.(*ast.DefaultExpr); isDef && ex.(*ast.DefaultExpr).Name == nil {
				d, err := e.defaultOf(col)
				if err != nil {
					return nil, err
				}
				v = d
				if col.AutoInc {
					v = nil
				}
			} else {
				ev, err := e.eval(ex)
				if err != nil {
					return nil, err
				}
				v = ev
			}
			cv, serr := col.coerce(v)
			if serr != nil {
				return nil, serr
			}
			row[ci] = cv
			given[ci] = true
		}
		for ci, col := range tab.Cols {
			if !given[ci] {
				d, err := e.defaultOf(col)
				if err != nil {
					return nil, err
				}
				row[ci] = d
			}
			if col.AutoInc {
				iv, _ := toInt(row[ci])
				if row[ci] == nil || iv == 0 {
					next := e.srv.nextAuto(autoCounter)
					if next <= autoCounter {
						// the counter has reached the end of the column's range
						return nil, &sqlErr{1467, "Failed to read auto-increment value from storage engine"}
					}
					if cv, serr := col.coerce(next); serr != nil || cv == nil {
						return nil, &sqlErr{1467, "Failed to read auto-increment value from storage engine"}
					}
					autoCounter = next
					row[ci] = autoCounter
					autoAssigned = true
					if firstAuto == 0 {
						firstAuto = autoCounter
					}
				} else if iv > autoCounter {
					autoCounter = iv
				}
			}
			if row[ci] == nil && col.NotNull {
				return nil, &sqlErr{ErBadNull, fmt.Sprintf("Column '%s' cannot be null", col.Name)}
			}
		}
		var key string
		if len(tab.PK) == 0 {
			hidden++
			key = fmt.Sprintf("r%020d|", hidden)
		} else {
			key = tab.pkKey(row)
		}
		if o := c.srv.tryLock(c.txn, lockName(tab, key)); o != nil {
			return nil, &conflict{o}
		}
		// an insert also locks its unique secondary index entries: a second
		// transaction inserting the same entry waits for the first one to end
		// (and then fails with a duplicate-key error if that one committed)
		for _, un := range uniqueLockNames(tab, row) {
			if o := c.srv.tryLock(c.txn, un); o != nil {
				return nil, &conflict{o}
			}
		}
		existing, exists := visible(key)
		dupKey := ""
		if exists {
			dupKey = key
		} else if len(st.OnDuplicate) > 0 || st.IsReplace {
			if err := c.checkUnique(tab, key, row, local); err != nil {
				if de, ok := err.(*dupErr); ok {
					dupKey = de.key
					if dupKey != key && !autoAssigned {
						// the duplicate is met, through a unique index, on a row whose
						// primary key is not the one the statement names
						res.notes = append(res.notes, "dup-on-other-row")
					}
					existing, _ = visible(dupKey)
					if o := c.srv.tryLock(c.txn, lockName(tab, dupKey)); o != nil {
						return nil, &conflict{o}
					}
				} else {
					return nil, err
				}
			}
		}
		if dupKey != "" {
			switch {
			case len(st.OnDuplicate) > 0:
				upd := existing.clone()
				e.row = existing
				e.insRow = row
				for _, a := range st.OnDuplicate {
					ci, ok := tab.Col(a.Column.Name.L)
					if !ok {
						return nil, &sqlErr{ErBadField, fmt.Sprintf("Unknown column '%s' in 'field list'", a.Column.Name.O)}
					}
					v, err := e.eval(a.Expr)
					if err != nil {
						return nil, err
					}
					cv, serr := tab.Cols[ci].coerce(v)
					if serr != nil {
						return nil, serr
					}
					if cv == nil && tab.Cols[ci].NotNull {
						return nil, &sqlErr{ErBadNull, fmt.Sprintf("Column '%s' cannot be null", tab.Cols[ci].Name)}
					}
					upd[ci] = cv
					e.row = upd
				}
				e.row, e.insRow = nil, nil
				if !RowsEqual(upd, existing) {
					if autoKeys[dupKey] && strings.Join(uniqueLockNames(tab, upd), ",") != strings.Join(uniqueLockNames(tab, existing), ",") {
						// a row this very statement inserted under a generated key gets
						// other unique values from a later VALUES row: afterwards nothing
						// in the statement identifies it
						res.notes = append(res.notes, "upsert-new-row-auto-pk-null-unique")
					}
					// the updated row must not collide with yet another row
					if err := c.checkUnique(tab, dupKey, upd, local); err != nil {
						if de, ok := err.(*dupErr); ok {
							return nil, &de.sqlErr
						}
						return nil, err
					}
					nk := tab.pkKey(upd)
					if len(tab.PK) == 0 {
						nk = dupKey
					}
					if nk != dupKey {
						plan = append(plan, pending{del: dupKey})
						local[dupKey] = nil
					}
					plan = append(plan, pending{key: nk, row: upd, old: existing})
					local[nk] = upd
					res.affected += 2
				}
				continue
			case st.IsReplace:
				plan = append(plan, pending{del: dupKey})
				local[dupKey] = nil
				res.affected++
			default:
				if st.IgnoreErr {
					continue
				}
				var vals []string
				for _, i := range tab.PK {
					vals = append(vals, toStr(row[i]))
				}
				return nil, &sqlErr{ErDupEntry, fmt.Sprintf("Duplicate entry '%s' for key '%s.PRIMARY'", strings.Join(vals, "-"), tab.Name)}
			}
		}
		if len(st.OnDuplicate) == 0 && !st.IsReplace {
			// unique secondary keys (against committed + own writes + this statement)
			if err := c.checkUnique(tab, key, row, local); err != nil {
				if st.IgnoreErr {
					continue
				}
				if de, ok := err.(*dupErr); ok {
					return nil, &de.sqlErr
				}
				return nil, err
			}
		}
		if len(st.OnDuplicate) > 0 && autoAssigned && len(uniqueLockNames(tab, row)) == 0 {
			hasUnique := false
			for _, ix := range tab.Indexes {
				if ix.Unique && !ix.Primary {
					hasUnique = true
				}
			}
			if hasUnique {
				// a new row of an upsert that nothing in the statement identifies:
				// generated primary key, NULL in every unique index
				res.notes = append(res.notes, "upsert-new-row-auto-pk-null-unique")
			}
		}
		if autoAssigned {
			autoKeys[key] = true
		}
		plan = append(plan, pending{key: key, row: row})
		local[key] = row
		res.affected++
	}
	// apply
	tname := strings.ToLower(tab.Schema + "." + tab.Name)
	for _, p := range plan {
		if p.del != "" {
			if old, ok := c.txn.visible(tab, p.del); ok {
				res.writes = append(res.writes, RowWrite{tname, p.del, old.clone(), nil})
			}
			c.txn.write(tab, p.del, nil)
			continue
		}
		var before Row
		if old, ok := c.txn.visible(tab, p.key); ok {
			before = old.clone()
		} else if p.old != nil {
			before = p.old.clone()
		}
		res.writes = append(res.writes, RowWrite{tname, p.key, before, p.row.clone()})
		c.txn.write(tab, p.key, p.row)
	}
	tab.autoInc = autoCounter
	tab.hidden = hidden
	if firstAuto != 0 {
		res.lastID = firstAuto
		c.lastInsertID = firstAuto
	}
	return res, nil
}

func (c *Conn) doUpdate(st *ast.UpdateStmt, args []interface{}) (*result, error) {
	schema, name, ok := tableNameOf(st.TableRefs)
	if !ok {
		return nil, &sqlErr{ErParse, "simdb: only single-table UPDATE is supported"}
	}
	tab, err := c.resolve(schema, name)
	if err != nil {
		return nil, err
	}
	e := &evalCtx{srv: c.srv, txn: c.txn, tab: tab, args: args, now: c.srv.now(), conn: c}
	for _, a := range st.List {
		if _, ok := tab.Col(a.Column.Name.L); !ok {
			return nil, &sqlErr{ErBadField, fmt.Sprintf("Unknown column '%s' in 'field list'", a.Column.Name.O)}
		}
		if err := checkColumns(tab, "field list", a.Expr); err != nil {
			return nil, err
		}
	}
	keys, rows, err := c.matchRows(e, tab, st.Where, st.Order, st.Limit)
	if err != nil {
		return nil, err
	}
	if err := c.lockRows(tab, keys); err != nil {
		return nil, err
	}
	res := &result{}
	type ch struct {
		oldKey, newKey string
		row            Row
	}
	var changes []ch
	updated := map[string]Row{}
	for i, r := range rows {
		upd := r.clone()
		e.row = r
		for _, a := range st.List {
			ci, ok := tab.Col(a.Column.Name.L)
			if !ok {
				return nil, &sqlErr{ErBadField, fmt.Sprintf("Unknown column '%s' in 'field list'", a.Column.Name.O)}
			}
			v, err := e.eval(a.Expr)
			if err != nil {
				return nil, err
			}
			cv, serr := tab.Cols[ci].coerce(v)
			if serr != nil {
				return nil, serr
			}
			if cv == nil && tab.Cols[ci].NotNull {
				return nil, &sqlErr{ErBadNull, fmt.Sprintf("Column '%s' cannot be null", tab.Cols[ci].Name)}
			}
			upd[ci] = cv
			e.row = upd // MySQL evaluates assignments left to right on the updated row
		}
		e.row = nil
		if RowsEqual(upd, r) {
			continue
		}
		for ci, col := range tab.Cols {
			if col.OnUpdNow {
				assigned := false
				for _, a := range st.List {
					if j, _ := tab.Col(a.Column.Name.L); j == ci {
						assigned = true
					}
				}
				if !assigned {
					upd[ci] = roundTime(e.now.UTC(), col.Scale)
				}
			}
		}
		nk := keys[i]
		if len(tab.PK) > 0 {
			nk = tab.pkKey(upd)
		}
		if nk != keys[i] {
			if o := c.srv.tryLock(c.txn, lockName(tab, nk)); o != nil {
				return nil, &conflict{o}
			}
			if _, exists := c.txn.visible(tab, nk); exists {
				return nil, &sqlErr{ErDupEntry, fmt.Sprintf("Duplicate entry for key '%s.PRIMARY'", tab.Name)}
			}
		}
		if err := c.checkUnique(tab, keys[i], upd, updated); err != nil {
			if de, ok := err.(*dupErr); ok {
				return nil, &de.sqlErr
			}
			return nil, err
		}
		updated[keys[i]] = upd
		changes = append(changes, ch{keys[i], nk, upd})
	}
	tname := strings.ToLower(tab.Schema + "." + tab.Name)
	for _, cg := range changes {
		old, _ := c.txn.visible(tab, cg.oldKey)
		if cg.newKey != cg.oldKey {
			res.writes = append(res.writes, RowWrite{tname, cg.oldKey, old.clone(), nil})
			res.writes = append(res.writes, RowWrite{tname, cg.newKey, nil, cg.row.clone()})
			c.txn.write(tab, cg.oldKey, nil)
		} else {
			res.writes = append(res.writes, RowWrite{tname, cg.oldKey, old.clone(), cg.row.clone()})
		}
		c.txn.write(tab, cg.newKey, cg.row)
		res.affected++
	}
	return res, nil
}

func (c *Conn) doDelete(st *ast.DeleteStmt, args []interface{}) (*result, error) {
	if st.IsMultiTable {
		return nil, &sqlErr{ErParse, "simdb: multi-table DELETE is not supported"}
	}
	schema, name, ok := tableNameOf(st.TableRefs)
	if !ok {
		return nil, &sqlErr{ErParse, "simdb: unsupported DELETE target"}
	}
	tab, err := c.resolve(schema, name)
	if err != nil {
		return nil, err
	}
	e := &evalCtx{srv: c.srv, txn: c.txn, tab: tab, args: args, now: c.srv.now(), conn: c}
	keys, _, err := c.matchRows(e, tab, st.Where, st.Order, st.Limit)
	if err != nil {
		return nil, err
	}
	if err := c.lockRows(tab, keys); err != nil {
		return nil, err
	}
	res := &result{affected: int64(len(keys))}
	tname := strings.ToLower(tab.Schema + "." + tab.Name)
	for _, k := range keys {
		if old, ok := c.txn.visible(tab, k); ok {
			res.writes = append(res.writes, RowWrite{tname, k, old.clone(), nil})
		}
		c.txn.write(tab, k, nil)
	}
	return res, nil
}

// ---- DDL -----------------------------------------------------------------------------------

func typeName(tp byte, flag uint, flen int) (dataType string) {
	switch tp {
	case mysql.TypeTiny:
		return "tinyint"
	case mysql.TypeShort:
		return "smallint"
	case mysql.TypeInt24:
		return "mediumint"
	case mysql.TypeLong:
		return "int"
	case mysql.TypeLonglong:
		return "bigint"
	case mysql.TypeFloat:
		return "float"
	case mysql.TypeDouble:
		return "double"
	case mysql.TypeNewDecimal, mysql.TypeUnspecified:
		return "decimal"
	case mysql.TypeDate, mysql.TypeNewDate:
		return "date"
	case mysql.TypeDatetime:
		return "datetime"
	case mysql.TypeTimestamp:
		return "timestamp"
	case mysql.TypeDuration:
		return "time"
	case mysql.TypeYear:
		return "year"
	case mysql.TypeBit:
		return "bit"
	case mysql.TypeJSON:
		return "json"
	case mysql.TypeEnum:
		return "enum"
	case mysql.TypeSet:
		return "set"
	case mysql.TypeString:
		if flag&mysql.BinaryFlag != 0 {
			return "binary"
		}
		return "char"
	case mysql.TypeVarchar, mysql.TypeVarString:
		if flag&mysql.BinaryFlag != 0 {
			return "varbinary"
		}
		return "varchar"
	case mysql.TypeTinyBlob:
		if flag&mysql.BinaryFlag != 0 {
			return "tinyblob"
		}
		return "tinytext"
	case mysql.TypeBlob:
		if flag&mysql.BinaryFlag != 0 {
			return "blob"
		}
		return "text"
	case mysql.TypeMediumBlob:
		if flag&mysql.BinaryFlag != 0 {
			return "mediumblob"
		}
		return "mediumtext"
	case mysql.TypeLongBlob:
		if flag&mysql.BinaryFlag != 0 {
			return "longblob"
		}
		return "longtext"
	}
	return "varchar"
}

// NewColumn builds a column from a MySQL type spelling such as "varchar(64)",
// "int unsigned", "decimal(10,2)", "datetime(3)".
func NewColumn(name, typ string, opts ...string) *Column {
	c := &Column{Name: name}
	t := strings.ToLower(strings.TrimSpace(typ))
	c.ColumnType = t
	if strings.Contains(t, "unsigned") {
		c.Unsigned = true
		t = strings.TrimSpace(strings.Replace(t, "unsigned", "", 1))
	}
	base := t
	if i := strings.IndexByte(t, '('); i >= 0 {
		base = strings.TrimSpace(t[:i])
		inner := t[i+1 : strings.IndexByte(t, ')')]
		parts := strings.Split(inner, ",")
		c.Len, _ = strconv.Atoi(strings.TrimSpace(parts[0]))
		if len(parts) > 1 {
			c.Scale, _ = strconv.Atoi(strings.TrimSpace(parts[1]))
		}
	}
	if base == "integer" {
		base = "int"
	}
	c.DataType = base
	switch base {
	case "datetime", "timestamp", "time":
		c.Scale = c.Len
		c.Len = 0
	case "decimal":
		if c.Len == 0 {
			c.Len = 10
		}
	case "bit":
		if c.Len == 0 {
			c.Len = 1
		}
	}
	for _, o := range opts {
		switch strings.ToLower(o) {
		case "not null":
			c.NotNull = true
		case "auto_increment":
			c.AutoInc = true
			c.NotNull = true
		case "default null":
			c.HasDefault = true
		case "default now":
			c.DefaultNow = true
		case "on update now":
			c.OnUpdNow = true
		default:
			if strings.HasPrefix(strings.ToLower(o), "default ") {
				v, _ := c.coerce(strings.Trim(o[8:], "'"))
				c.Default = v
				c.HasDefault = true
			}
		}
	}
	return c
}

func (c *Conn) doCreateTable(st *ast.CreateTableStmt) (*result, error) {
	schema := st.Table.Schema.O
	if schema == "" {
		schema = c.db
	}
	if c.srv.table(schema, st.Table.Name.O) != nil {
		if st.IfNotExists {
			return &result{}, nil
		}
		return nil, &sqlErr{1050, fmt.Sprintf("Table '%s' already exists", st.Table.Name.O)}
	}
	var cols []*Column
	var pk []string
	var idx []*Index
	for _, cd := range st.Cols {
		tp := cd.Tp
		col := &Column{Name: cd.Name.Name.O, DataType: typeName(tp.Tp, tp.Flag, tp.Flen)}
		col.Unsigned = tp.Flag&mysql.UnsignedFlag != 0
		if tp.Flen > 0 {
			col.Len = tp.Flen
		}
		if tp.Decimal > 0 {
			col.Scale = tp.Decimal
		}
		switch col.DataType {
		case "datetime", "timestamp", "time":
			col.Len = 0
		case "decimal":
			if col.Len <= 0 {
				col.Len = 10
			}
		}
		col.ColumnType = col.DataType
		switch col.class() {
		case "string", "bytes":
			if col.Len > 0 && (col.DataType == "char" || col.DataType == "varchar" || col.DataType == "binary" || col.DataType == "varbinary") {
				col.ColumnType = fmt.Sprintf("%s(%d)", col.DataType, col.Len)
			}
		case "decimal":
			col.ColumnType = fmt.Sprintf("decimal(%d,%d)", col.Len, col.Scale)
		}
		if col.Unsigned {
			col.ColumnType += " unsigned"
		}
		for _, o := range cd.Options {
			switch o.Tp {
			case ast.ColumnOptionPrimaryKey:
				pk = append(pk, col.Name)
				col.NotNull = true
			case ast.ColumnOptionNotNull:
				col.NotNull = true
			case ast.ColumnOptionAutoIncrement:
				col.AutoInc = true
				col.NotNull = true
			case ast.ColumnOptionUniqKey:
				idx = append(idx, &Index{Name: col.Name, Cols: []string{col.Name}, Unique: true})
			case ast.ColumnOptionDefaultValue:
				if fc, ok := o.Expr.(*ast.FuncCallExpr); ok && (fc.FnName.L == "now" || fc.FnName.L == "current_timestamp") {
					col.DefaultNow = true
					break
				}
				e := &evalCtx{srv: c.srv, now: c.srv.now()}
				v, err := e.eval(o.Expr)
				if err != nil {
					return nil, err
				}
				cv, serr := col.coerce(v)
				if serr != nil {
					return nil, serr
				}
				col.Default = cv
				col.HasDefault = true
			case ast.ColumnOptionOnUpdate:
				col.OnUpdNow = true
			}
		}
		cols = append(cols, col)
	}
	for _, cn := range st.Constraints {
		var names []string
		for _, k := range cn.Keys {
			if k.Column != nil {
				names = append(names, k.Column.Name.O)
			}
		}
		switch cn.Tp {
		case ast.ConstraintPrimaryKey:
			pk = names
		case ast.ConstraintUniq, ast.ConstraintUniqKey, ast.ConstraintUniqIndex:
			n := cn.Name
			if n == "" && len(names) > 0 {
				n = names[0]
			}
			idx = append(idx, &Index{Name: n, Cols: names, Unique: true})
		case ast.ConstraintKey, ast.ConstraintIndex:
			n := cn.Name
			if n == "" && len(names) > 0 {
				n = names[0]
			}
			idx = append(idx, &Index{Name: n, Cols: names})
		}
	}
	c.srv.createTableLocked(schema, st.Table.Name.O, cols, pk, idx)
	return &result{}, nil
}
