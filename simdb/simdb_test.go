package simdb

import (
	"context"
	"database/sql"
	"database/sql/driver"
	"fmt"
	"reflect"
	"strings"
	"testing"
	"time"

	"github.com/go-sql-driver/mysql"
)

var regN int

func open(t *testing.T, params string) (*Server, *sql.DB) {
	srv := NewServer("simdb1", "8.0.30")
	srv.LockWaitTimeout = 200 * time.Millisecond
	regN++
	name := fmt.Sprintf("simdb-test-%d", regN)
	sql.Register(name, &Driver{Srv: srv})
	db, err := sql.Open(name, "u:p@tcp(simdb1:3306)/shop?"+params)
	if err != nil {
		t.Fatal(err)
	}
	return srv, db
}

func mustExec(t *testing.T, db interface {
	Exec(string, ...interface{}) (sql.Result, error)
}, q string, args ...interface{}) (int64, int64) {
	t.Helper()
	r, err := db.Exec(q, args...)
	if err != nil {
		t.Fatalf("%s: %v", q, err)
	}
	a, _ := r.RowsAffected()
	l, _ := r.LastInsertId()
	return a, l
}

func TestBasicDML(t *testing.T) {
	_, db := open(t, "interpolateParams=true&parseTime=true")
	mustExec(t, db, "CREATE TABLE t_user (id BIGINT NOT NULL AUTO_INCREMENT, name VARCHAR(32) NOT NULL, age INT DEFAULT 18, score DECIMAL(10,2), f FLOAT, born DATETIME(3), raw BLOB, PRIMARY KEY (id), UNIQUE KEY uk_name (name))")
	a, l := mustExec(t, db, "INSERT INTO t_user (name, age, score, f, born, raw) VALUES (?, ?, ?, ?, ?, ?), ('bob', DEFAULT, 1.005, 0.1, '2024-01-02 03:04:05.6789', NULL)", "alice", 30, "12.345", 0.5, time.Date(2020, 5, 6, 7, 8, 9, 123456789, time.UTC), []byte{0, 1, 2})
	if a != 2 || l != 1 {
		t.Fatalf("affected %d last %d", a, l)
	}
	var name string
	var age sql.NullInt64
	var score, f sql.NullFloat64
	var born sql.NullTime
	var raw []byte
	err := db.QueryRow("SELECT name, age, score, f, born, raw FROM t_user WHERE id = ?", 2).Scan(&name, &age, &score, &f, &born, &raw)
	if err != nil {
		t.Fatal(err)
	}
	if name != "bob" || age.Int64 != 18 || score.Float64 != 1.01 || fmt.Sprint(float32(f.Float64)) != "0.1" || born.Time.Format("15:04:05.000") != "03:04:05.679" || raw != nil {
		t.Fatalf("got %v %v %v %v %v %v", name, age, score, f, born, raw)
	}
	// duplicate key
	_, err = db.Exec("INSERT INTO t_user (name) VALUES ('alice')")
	if me, ok := err.(*mysql.MySQLError); !ok || me.Number != 1062 {
		t.Fatalf("want 1062, got %v", err)
	}
	// upsert: update path = 2, unchanged = 0, insert = 1
	a, _ = mustExec(t, db, "INSERT INTO t_user (id, name, age) VALUES (1, 'alice', 31) ON DUPLICATE KEY UPDATE age = VALUES(age)")
	if a != 2 {
		t.Fatalf("upsert affected %d", a)
	}
	a, _ = mustExec(t, db, "INSERT INTO t_user (id, name, age) VALUES (1, 'alice', 31) ON DUPLICATE KEY UPDATE age = VALUES(age)")
	if a != 0 {
		t.Fatalf("upsert unchanged affected %d", a)
	}
	a, _ = mustExec(t, db, "UPDATE t_user SET age = age + 1 WHERE (id) IN ((?),(?)) AND name <> 'zed'", 1, 2)
	if a != 2 {
		t.Fatalf("update affected %d", a)
	}
	a, _ = mustExec(t, db, "UPDATE t_user SET age = 32 WHERE id = 1")
	if a != 0 {
		t.Fatalf("no-op update affected %d", a)
	}
	rows, err := db.Query("SELECT id FROM t_user WHERE age BETWEEN 10 AND 40 ORDER BY age DESC LIMIT 1")
	if err != nil {
		t.Fatal(err)
	}
	var ids []int64
	for rows.Next() {
		var id int64
		rows.Scan(&id)
		ids = append(ids, id)
	}
	if !reflect.DeepEqual(ids, []int64{1}) {
		t.Fatalf("ids %v", ids)
	}
	a, _ = mustExec(t, db, "DELETE FROM t_user WHERE name LIKE 'b%'")
	if a != 1 {
		t.Fatalf("delete affected %d", a)
	}
}

func TestKindsTextAndBinary(t *testing.T) {
	_, db := open(t, "interpolateParams=true&parseTime=true")
	mustExec(t, db, "CREATE TABLE k (id INT PRIMARY KEY, s VARCHAR(10), d DOUBLE, f FLOAT, dec1 DECIMAL(6,2), ts DATETIME, b BLOB, bt BIT(8))")
	mustExec(t, db, "INSERT INTO k VALUES (1, 'x', 1.5, 0.25, 3.1, '2024-02-03 04:05:06', 'bin', 5)")
	conn, _ := db.Conn(context.Background())
	defer conn.Close()
	kinds := func(prepared bool) []string {
		var out []string
		conn.Raw(func(dc interface{}) error {
			c := dc.(*Conn)
			var rows driver.Rows
			var err error
			if prepared {
				st, _ := c.Prepare("SELECT * FROM k WHERE id = ?")
				rows, err = st.Query([]driver.Value{int64(1)})
			} else {
				rows, err = c.Query("SELECT * FROM k WHERE id = ?", []driver.Value{int64(1)})
			}
			if err != nil {
				t.Fatal(err)
			}
			dest := make([]driver.Value, len(rows.Columns()))
			rows.Next(dest)
			for _, d := range dest {
				out = append(out, fmt.Sprintf("%T", d))
			}
			return nil
		})
		return out
	}
	text := kinds(false)
	bin := kinds(true)
	wantText := []string{"[]uint8", "[]uint8", "[]uint8", "[]uint8", "[]uint8", "time.Time", "[]uint8", "[]uint8"}
	wantBin := []string{"int64", "[]uint8", "float64", "float32", "[]uint8", "time.Time", "[]uint8", "[]uint8"}
	if !reflect.DeepEqual(text, wantText) {
		t.Fatalf("text kinds %v", text)
	}
	if !reflect.DeepEqual(bin, wantBin) {
		t.Fatalf("binary kinds %v", bin)
	}
}

func TestErrSkipWithoutInterpolate(t *testing.T) {
	_, db := open(t, "parseTime=true")
	mustExec(t, db, "CREATE TABLE k (id INT PRIMARY KEY)")
	conn, _ := db.Conn(context.Background())
	defer conn.Close()
	conn.Raw(func(dc interface{}) error {
		_, err := dc.(*Conn).Query("SELECT * FROM k WHERE id = ?", []driver.Value{int64(1)})
		if err != driver.ErrSkip {
			t.Fatalf("want ErrSkip, got %v", err)
		}
		return nil
	})
	// database/sql falls back to prepare
	mustExec(t, db, "INSERT INTO k VALUES (?)", 7)
}

func TestTxnIsolationAndLocks(t *testing.T) {
	srv, db := open(t, "interpolateParams=true&parseTime=true")
	mustExec(t, db, "CREATE TABLE acct (id INT PRIMARY KEY, bal INT NOT NULL)")
	mustExec(t, db, "INSERT INTO acct VALUES (1, 100), (2, 200)")
	tx1, _ := db.Begin()
	tx2, _ := db.Begin()
	mustExec(t, tx1, "UPDATE acct SET bal = bal - 10 WHERE id = 1")
	var bal int
	tx2.QueryRow("SELECT bal FROM acct WHERE id = 1").Scan(&bal)
	if bal != 100 {
		t.Fatalf("dirty read: %d", bal)
	}
	tx1.QueryRow("SELECT bal FROM acct WHERE id = 1").Scan(&bal)
	if bal != 90 {
		t.Fatalf("own write not visible: %d", bal)
	}
	// tx2 blocks on the row lock and times out
	_, err := tx2.Exec("UPDATE acct SET bal = 0 WHERE id = 1")
	if me, ok := err.(*mysql.MySQLError); !ok || me.Number != 1205 {
		t.Fatalf("want 1205, got %v", err)
	}
	// blocked statement proceeds after commit
	done := make(chan error, 1)
	go func() {
		_, err := tx2.Exec("UPDATE acct SET bal = bal + 1 WHERE id = 1")
		done <- err
	}()
	time.Sleep(30 * time.Millisecond)
	if err := tx1.Commit(); err != nil {
		t.Fatal(err)
	}
	if err := <-done; err != nil {
		t.Fatal(err)
	}
	tx2.Commit()
	db.QueryRow("SELECT bal FROM acct WHERE id = 1").Scan(&bal)
	if bal != 91 {
		t.Fatalf("bal %d", bal)
	}
	// rollback + savepoint
	tx3, _ := db.Begin()
	mustExec(t, tx3, "UPDATE acct SET bal = 1 WHERE id = 2")
	mustExec(t, tx3, "SAVEPOINT sp1")
	mustExec(t, tx3, "DELETE FROM acct WHERE id = 2")
	mustExec(t, tx3, "ROLLBACK TO SAVEPOINT sp1")
	tx3.QueryRow("SELECT bal FROM acct WHERE id = 2").Scan(&bal)
	if bal != 1 {
		t.Fatalf("after rollback to savepoint: %d", bal)
	}
	tx3.Rollback()
	db.QueryRow("SELECT bal FROM acct WHERE id = 2").Scan(&bal)
	if bal != 200 {
		t.Fatalf("after rollback: %d", bal)
	}
	for _, st := range srv.ConnStates() {
		if st.InTxn || st.Locks != 0 {
			t.Fatalf("connection left in txn: %+v", st)
		}
	}
}

func TestDeadlock(t *testing.T) {
	_, db := open(t, "interpolateParams=true")
	mustExec(t, db, "CREATE TABLE d (id INT PRIMARY KEY, v INT)")
	mustExec(t, db, "INSERT INTO d VALUES (1, 0), (2, 0)")
	tx1, _ := db.Begin()
	tx2, _ := db.Begin()
	mustExec(t, tx1, "UPDATE d SET v = 1 WHERE id = 1")
	mustExec(t, tx2, "UPDATE d SET v = 2 WHERE id = 2")
	res := make(chan error, 1)
	go func() { _, err := tx1.Exec("UPDATE d SET v = 1 WHERE id = 2"); res <- err }()
	time.Sleep(30 * time.Millisecond)
	_, err := tx2.Exec("UPDATE d SET v = 2 WHERE id = 1")
	if me, ok := err.(*mysql.MySQLError); !ok || me.Number != 1213 {
		t.Fatalf("want 1213, got %v", err)
	}
	if err := <-res; err != nil {
		t.Fatalf("survivor failed: %v", err)
	}
	tx1.Commit()
	tx2.Rollback()
}

func TestXAStateMachine(t *testing.T) {
	for _, ver := range []string{"8.0.30", "5.7.40"} {
		srv, db := open(t, "interpolateParams=true")
		srv.Version = ver
		mustExec(t, db, "CREATE TABLE x (id INT PRIMARY KEY, v INT)")
		ctx := context.Background()
		c1, _ := db.Conn(ctx)
		c2, _ := db.Conn(ctx)
		ex := func(c *sql.Conn, q string) error { _, err := c.ExecContext(ctx, q); return err }
		num := func(err error) int {
			if me, ok := err.(*mysql.MySQLError); ok {
				return int(me.Number)
			}
			if err == nil {
				return 0
			}
			return -1
		}
		if n := num(ex(c1, "XA END 'a'")); n != 1399 {
			t.Fatalf("%s: XA END without start: %d", ver, n)
		}
		if err := ex(c1, "XA START 'a'"); err != nil {
			t.Fatal(err)
		}
		if n := num(ex(c2, "XA START 'a'")); n != 1440 {
			t.Fatalf("%s: dup xid: %d", ver, n)
		}
		ex(c1, "INSERT INTO x VALUES (1, 1)")
		if n := num(ex(c1, "XA PREPARE 'a'")); n != 1399 {
			t.Fatalf("%s: prepare while active: %d", ver, n)
		}
		if n := num(ex(c1, "COMMIT")); n != 1399 {
			t.Fatalf("%s: commit while active: %d", ver, n)
		}
		ex(c1, "XA END 'a'")
		if n := num(ex(c1, "INSERT INTO x VALUES (2, 2)")); n != 1399 {
			t.Fatalf("%s: dml while idle: %d", ver, n)
		}
		if err := ex(c1, "XA PREPARE 'a'"); err != nil {
			t.Fatal(err)
		}
		err := ex(c2, "XA COMMIT 'a'")
		if ver == "8.0.30" {
			if err != nil {
				t.Fatalf("8.0.30: commit from another connection: %v", err)
			}
		} else {
			if num(err) != 1397 {
				t.Fatalf("5.7: commit from another connection while the owner is alive: %v", err)
			}
			// owner disconnects: the prepared branch survives and can be finished elsewhere
			c1.Raw(func(dc interface{}) error { dc.(*Conn).Close(); return nil })
			if err := ex(c2, "XA COMMIT 'a'"); err != nil {
				t.Fatalf("5.7: commit after owner disconnect: %v", err)
			}
		}
		var n int
		db.QueryRow("SELECT COUNT(*) FROM x").Scan(&n)
		if n != 1 {
			t.Fatalf("%s: rows %d", ver, n)
		}
		if n := num(ex(c2, "XA ROLLBACK 'nope'")); n != 1397 {
			t.Fatalf("%s: unknown xid: %d", ver, n)
		}
	}
}

func TestInformationSchema(t *testing.T) {
	_, db := open(t, "interpolateParams=true")
	mustExec(t, db, "CREATE TABLE t_order (oid VARCHAR(20) NOT NULL, uid INT NOT NULL, amt DECIMAL(8,2) DEFAULT 0.00, PRIMARY KEY (oid, uid), KEY idx_amt (amt))")
	rows, err := db.Query("SELECT `TABLE_NAME`, `TABLE_SCHEMA`, `COLUMN_NAME`, `DATA_TYPE`, `COLUMN_TYPE`, `COLUMN_KEY`, `IS_NULLABLE`, `COLUMN_DEFAULT`, `EXTRA` FROM INFORMATION_SCHEMA.COLUMNS WHERE `TABLE_SCHEMA` = ? AND `TABLE_NAME` = ?", "shop", "T_ORDER")
	if err != nil {
		t.Fatal(err)
	}
	var got []string
	for rows.Next() {
		var a, b, c, d, e, f, g, i string
		var h []byte
		if err := rows.Scan(&a, &b, &c, &d, &e, &f, &g, &h, &i); err != nil {
			t.Fatal(err)
		}
		got = append(got, fmt.Sprintf("%s/%s/%s/%s/%s/%s/%s", c, d, e, f, g, h, i))
	}
	want := []string{"oid/varchar/varchar(20)/PRI/NO//", "uid/int/int/PRI/NO//", "amt/decimal/decimal(8,2)/MUL/YES/0.00/"}
	if !reflect.DeepEqual(got, want) {
		t.Fatalf("columns %q", got)
	}
	rows, _ = db.Query("SELECT `INDEX_NAME`, `COLUMN_NAME`, `NON_UNIQUE` FROM `INFORMATION_SCHEMA`.`STATISTICS` WHERE `TABLE_SCHEMA` = ? AND `TABLE_NAME` = ?", "shop", "t_order")
	got = nil
	for rows.Next() {
		var a, b string
		var n int64
		rows.Scan(&a, &b, &n)
		got = append(got, fmt.Sprintf("%s/%s/%d", a, b, n))
	}
	want = []string{"PRIMARY/oid/0", "PRIMARY/uid/0", "idx_amt/amt/1"}
	if !reflect.DeepEqual(got, want) {
		t.Fatalf("statistics %q", got)
	}
	var v string
	db.QueryRow("SELECT VERSION()").Scan(&v)
	if v != "8.0.30" {
		t.Fatalf("version %q", v)
	}
	var k, val string
	if err := db.QueryRow("SHOW VARIABLES LIKE 'auto_increment_increment'").Scan(&k, &val); err != nil || val != "1" {
		t.Fatalf("show variables: %v %q", err, val)
	}
}

func TestUndoLogShapes(t *testing.T) {
	_, db := open(t, "interpolateParams=true&parseTime=true")
	mustExec(t, db, "CREATE TABLE undo_log (id BIGINT NOT NULL AUTO_INCREMENT, branch_id BIGINT NOT NULL, xid VARCHAR(128) NOT NULL, context VARCHAR(128) NOT NULL, rollback_info LONGBLOB NOT NULL, log_status INT NOT NULL, log_created DATETIME(6) NOT NULL, log_modified DATETIME(6) NOT NULL, PRIMARY KEY (id), UNIQUE KEY ux_undo_log (xid, branch_id))")
	st, err := db.Prepare("INSERT INTO  undo_log (branch_id,xid,context,rollback_info,log_status,log_created,log_modified) VALUES (?, ?, ?, ?, ?, now(6), now(6))")
	if err != nil {
		t.Fatal(err)
	}
	if _, err := st.Exec(uint64(7001), "10.0.0.7:8091:1001", []byte("ctx"), []byte{1, 2, 3}, int64(0)); err != nil {
		t.Fatal(err)
	}
	var n int
	// the async worker binds branch ids as strings
	db.QueryRow("SELECT COUNT(*) FROM undo_log WHERE branch_id IN (?) AND xid IN (?)", "7001", "10.0.0.7:8091:1001").Scan(&n)
	if n != 1 {
		t.Fatalf("string-bound branch id did not match: %d", n)
	}
	var bid uint64
	var xid string
	var cx, info []byte
	var status int32
	err = db.QueryRow("SELECT `branch_id`,`xid`,`context`,`rollback_info`,`log_status` FROM  undo_log  WHERE branch_id = ? AND xid = ? FOR UPDATE", int64(7001), "10.0.0.7:8091:1001").Scan(&bid, &xid, &cx, &info, &status)
	if err != nil || bid != 7001 || string(cx) != "ctx" || len(info) != 3 {
		t.Fatalf("select undo: %v %v %q %v", err, bid, cx, info)
	}
	a, _ := mustExec(t, db, " DELETE FROM  undo_log  WHERE branch_id IN  (?,?)  AND xid IN  (?) ", "7001", "7002", "10.0.0.7:8091:1001")
	if a != 1 {
		t.Fatalf("batch delete affected %d", a)
	}
}

func TestUniqueInsertConflict(t *testing.T) {
	_, db := open(t, "interpolateParams=true")
	mustExec(t, db, "CREATE TABLE u (id bigint not null auto_increment primary key, a int not null, b varchar(10) not null, unique key ux (a, b))")
	tx1, _ := db.Begin()
	if _, err := tx1.Exec("INSERT INTO u (a, b) VALUES (1, 'x')"); err != nil {
		t.Fatal(err)
	}
	done := make(chan error, 1)
	go func() {
		tx2, _ := db.Begin()
		_, err := tx2.Exec("INSERT INTO u (a, b) VALUES (1, 'x')")
		tx2.Rollback()
		done <- err
	}()
	select {
	case err := <-done:
		t.Fatalf("second insert did not wait: %v", err)
	case <-time.After(50 * time.Millisecond):
	}
	tx1.Commit()
	err := <-done
	if err == nil || !strings.Contains(err.Error(), "Duplicate entry") {
		t.Fatalf("want duplicate entry after the first committed, got %v", err)
	}
}
