package sim

import (
	"database/sql"
	"flag"
	"fmt"
	"runtime"
	"strconv"
	"strings"
	"time"

	"seata.apache.org/seata-go/pkg/datasource"
	ssql "seata.apache.org/seata-go/pkg/datasource/sql"
	execcfg "seata.apache.org/seata-go/pkg/datasource/sql/exec/config"
	"seata.apache.org/seata-go/pkg/datasource/sql/undo"
	"seata.apache.org/seata-go/pkg/rm"
	"seata.apache.org/seata-go/pkg/rm/tcc"

	"verif/simdb"
	"verif/simkit"
	"verif/simnet"
)

// DBFault: fail (or disturb) the Nth statement (1-based, counted from the last
// Reset) whose class matches.
type DBFault struct {
	Class string `json:"class"`
	Nth   int    `json:"nth"`
	Kind  string `json:"kind"` // error | badconn | invalidconn
	Num   int    `json:"num,omitempty"`
}

// dbHook connects simdb to the scheduler: every statement is a sim point
// (except the statements the client issues while holding its meta-cache
// lock, which run inline), faults come from the plan.
type dbHook struct {
	sim     *simkit.Sim
	mu      simkit.QuietMutex
	faults  []DBFault
	counts  map[string]int
	perConn map[int]int
	park    bool
	Stmts   int
	// latencyMs / latSeq: see BeforeStmt
	latencyMs int
	latSeq    uint64
	// lastMeta: simulated instant of the latest information_schema look-up
	lastMeta time.Duration
}

func newDBHook(sim *simkit.Sim) *dbHook {
	return &dbHook{sim: sim, counts: map[string]int{}, perConn: map[int]int{}, park: true}
}

func (h *dbHook) Reset(faults []DBFault) {
	h.mu.Lock()
	h.faults = faults
	h.counts = map[string]int{}
	h.mu.Unlock()
}

func (h *dbHook) Count(class string) int {
	h.mu.Lock()
	defer h.mu.Unlock()
	return h.counts[class]
}

func (h *dbHook) Counts() map[string]int {
	h.mu.Lock()
	defer h.mu.Unlock()
	out := map[string]int{}
	for k, v := range h.counts {
		out[k] = v
	}
	return out
}

func (h *dbHook) BeforeStmt(connID int, class string, sqlText string) *simdb.Fault {
	c20Tick()
	inline := class == "meta" || class == "connect"
	h.mu.Lock()
	h.perConn[connID]++
	seq := h.perConn[connID]
	h.Stmts++
	park := h.park && !inline
	h.mu.Unlock()
	if park {
		h.sim.Park(fmt.Sprintf("db|%03d|%06d", connID+1, seq), "")
	} else if h.latencyMs > 0 {
		// concurrent engine (C20): statements take 1..latencyMs ms of simulated
		// time on a 1 ms grid, so that goroutines of different transactions (and
		// the client's background goroutines) become runnable at the same instants
		h.mu.Lock()
		h.latSeq = h.latSeq*6364136223846793005 + 1442695040888963407
		d := time.Duration(1+int((h.latSeq>>33)%uint64(h.latencyMs))) * time.Millisecond
		h.mu.Unlock()
		if class == "meta" {
			// the client reads table metadata under its cache lock; a fake-clock
			// sleep there would freeze the bubble as soon as a second goroutine
			// waits for that lock (a mutex waiter is not durably blocked), so
			// these look-ups only give way to the other goroutines
			for i := 0; i < 3; i++ {
				runtime.Gosched()
			}
		} else {
			time.Sleep(d)
		}
	}
	h.mu.Lock()
	defer h.mu.Unlock()
	h.counts[class]++
	if class == "meta" && strings.Contains(sqlText, "INFORMATION_SCHEMA") {
		h.lastMeta = h.sim.Now()
	}
	n := h.counts[class]
	for _, f := range h.faults {
		if f.Class == class && f.Nth == n {
			h.sim.Fault("db-" + f.Kind + "-" + class)
			num := f.Num
			if num == 0 {
				num = 1105
			}
			return &simdb.Fault{Kind: f.Kind, Num: num, Msg: "injected fault on " + class}
		}
	}
	return nil
}

func (h *dbHook) LockWait(connID int, wake <-chan struct{}, timeout time.Duration) bool {
	h.sim.Probe("db-lock-wait")
	tm := time.NewTimer(timeout)
	defer tm.Stop()
	select {
	case <-wake:
		return false
	case <-tm.C:
		h.sim.Probe("db-lock-wait-timeout")
		return true
	}
}

func (h *dbHook) Logf(format string, a ...any) uint64 { return h.sim.Logf(format, a...) }
func (h *dbHook) LogfQuiet(format string, a ...any) uint64 {
	return h.sim.LogfQuiet(format, a...)
}

// ATCfg is the generated AT / undo / async-worker configuration of a run.
type ATCfg struct {
	Serializer     string `json:"serializer"` // json | protobuf
	Compress       string `json:"compress"`   // None, Gzip, ...
	DataValidation bool   `json:"data_validation"`
	OnlyUpdateCols bool   `json:"only_care_update_columns"`
	ServerVersion  string `json:"server_version"`
	// LoadBalance: session selection policy of the client ("" = RandomLoadBalance)
	LoadBalance string `json:"load_balance,omitempty"`
	// AutoIncStep: the server's auto_increment_increment (0/1 = default)
	AutoIncStep    int `json:"auto_inc_step,omitempty"`
	BufferLimit    int `json:"buffer_limit"`
	CleanMs        int `json:"clean_ms"`
	RecvChan       int `json:"recv_chan"`
	Workers        int `json:"workers"`
	WorkerBuf      int `json:"worker_buf"`
	LockRetryMs    int `json:"lock_retry_ms"`
	LockRetryTimes int `json:"lock_retry_times"`
}

// applyServerCfg sets the server variables of the run on a database model.
func applyServerCfg(srv *simdb.Server, cfg ATCfg) {
	if cfg.AutoIncStep > 1 {
		srv.Vars["auto_increment_increment"] = strconv.Itoa(cfg.AutoIncStep)
	}
}

func defaultATCfg() ATCfg {
	return ATCfg{Serializer: "json", Compress: "None", DataValidation: true, OnlyUpdateCols: false, ServerVersion: "8.0.30",
		BufferLimit: 100, CleanMs: 1000, RecvChan: 100, Workers: 2, WorkerBuf: 16, LockRetryMs: 10, LockRetryTimes: 3}
}

func genATCfg(g *simkit.Gen, swarm bool) ATCfg {
	c := defaultATCfg()
	if g.Prob(0.25) {
		// multi-master set-ups: generated keys advance by more than one
		c.AutoIncStep = simkit.Pick(g, []int{2, 3, 10})
	}
	if !swarm {
		return c
	}
	c.Serializer = simkit.Pick(g, []string{"json", "json", "protobuf"})
	if g.Prob(0.5) {
		c.Compress = simkit.Pick(g, []string{"Gzip", "Zip", "Bzip2", "Lz4", "Lz4", "Deflate", "Zstd", "gzip", "", "Sevenz"})
	}
	c.DataValidation = g.Prob(0.8)
	c.OnlyUpdateCols = g.Bool()
	c.BufferLimit = simkit.Pick(g, []int{1, 2, 3, 10, 50})
	c.CleanMs = simkit.Pick(g, []int{10, 100, 1000, 2000})
	c.RecvChan = simkit.Pick(g, []int{1, 2, 8, 64})
	c.Workers = g.Range(1, 4)
	c.WorkerBuf = simkit.Pick(g, []int{1, 2, 16})
	c.ServerVersion = simkit.Pick(g, []string{"8.0.30", "8.0.30", "5.7.40", "8.0.28"})
	return c
}

// ATWorld is the booted AT system: client + coordinator + database(s).
type ATWorld struct {
	*World
	Srv   *simdb.Server
	Hook  *dbHook
	DBs   []*sql.DB // proxied (AT) handles, one per data source
	Bare  *sql.DB   // bare handle of the harness (no hook, no proxy)
	DSNs  []string
	ResID []string
}

var atDriverSeq int

const simDSNParams = "?interpolateParams=true&parseTime=true&multiStatements=true"

// bootAT initialises remoting + TM + RM + AT (+TCC) inside the bubble and
// opens the session. Data sources are opened later by OpenDS from an actor.
func bootAT(seed uint64, tape *simkit.Tape, cfg ATCfg, ncfg simnet.Config) *ATWorld {
	lb := cfg.LoadBalance
	if lb == "" {
		lb = "RandomLoadBalance"
	}
	w := bootRemoting(seed, tape, BootCfg{LoadBalance: lb, CommitRetry: 2, RollbackRetry: 2}, ncfg)
	execcfg.Init(rm.LockConfig{RetryInterval: time.Duration(cfg.LockRetryMs) * time.Millisecond, RetryTimes: cfg.LockRetryTimes, RetryPolicyBranchRollbackOnConflict: true})
	tcc.InitTCC()
	ucfg := undo.Config{DataValidation: cfg.DataValidation, LogSerialization: cfg.Serializer, LogTable: "undo_log", OnlyCareUpdateColumns: cfg.OnlyUpdateCols,
		CompressConfig: undo.CompressConfig{Enable: cfg.Compress != "None" && cfg.Compress != "", Type: cfg.Compress, Threshold: "1k"}}
	ssql.InitAT(ucfg, ssql.AsyncWorkerConfig{BufferLimit: cfg.BufferLimit, BufferCleanInterval: time.Duration(cfg.CleanMs) * time.Millisecond,
		ReceiveChanSize: cfg.RecvChan, CommitWorkerCount: cfg.Workers, CommitWorkerBufferSize: cfg.WorkerBuf})
	{
		var xcfg ssql.XAConfig
		fs := flag.NewFlagSet("xa", flag.ContinueOnError)
		xcfg.RegisterFlagsWithPrefix("xa", fs)
		fs.Parse(nil)
		ssql.InitXA(xcfg)
	}
	datasource.Init()
	srv := simdb.NewServer("simdb1", cfg.ServerVersion)
	applyServerCfg(srv, cfg)
	srv.LockWaitTimeout = 5 * time.Second
	hook := newDBHook(w.Sim)
	srv.Hook = hook
	aw := &ATWorld{World: w, Srv: srv, Hook: hook}
	// the harness' own bare handle bypasses the hook
	atDriverSeq++
	bareName := fmt.Sprintf("simdb-bare-%d", atDriverSeq)
	sql.Register(bareName, &simdb.Driver{Srv: srv, NoHook: true})
	ssql.VerifRegisterDrivers("seata-at-sim", "seata-xa-sim", &simdb.Driver{Srv: srv})
	bare, err := sql.Open(bareName, "harness:pw@tcp(simdb1:3306)/shop"+simDSNParams)
	if err != nil {
		panic(err)
	}
	aw.Bare = bare
	return aw
}

// CreateUndoLog creates the undo_log table with the DDL of the Seata documentation.
func (w *ATWorld) CreateUndoLog(schema string) {
	w.Srv.CreateTable(schema, "undo_log", []*simdb.Column{
		simdb.NewColumn("id", "bigint", "not null", "auto_increment"),
		simdb.NewColumn("branch_id", "bigint", "not null"),
		simdb.NewColumn("xid", "varchar(128)", "not null"),
		simdb.NewColumn("context", "varchar(128)", "not null"),
		simdb.NewColumn("rollback_info", "longblob", "not null"),
		simdb.NewColumn("log_status", "int", "not null"),
		simdb.NewColumn("log_created", "datetime(6)", "not null"),
		simdb.NewColumn("log_modified", "datetime(6)", "not null"),
	}, []string{"id"}, []*simdb.Index{{Name: "ux_undo_log", Cols: []string{"xid", "branch_id"}, Unique: true}})
}

// OpenDS opens the AT proxy over schema (must run on an actor goroutine: it
// registers the resource with the coordinator and queries the server version).
func (w *ATWorld) OpenDS(schema string) (*sql.DB, error) {
	dsn := "root:pw@tcp(simdb1:3306)/" + schema + simDSNParams
	db, err := sql.Open("seata-at-sim", dsn)
	if err != nil {
		return nil, err
	}
	w.DBs = append(w.DBs, db)
	w.DSNs = append(w.DSNs, dsn)
	w.ResID = append(w.ResID, strings.SplitN(dsn, "?", 2)[0])
	return db, nil
}

// UndoRows returns the undo_log rows (xid, branch_id, log_status) of a schema.
func (w *ATWorld) UndoRows(schema string) [][3]string {
	snap := w.Srv.Snapshot()
	var out [][3]string
	for _, r := range snap[strings.ToLower(schema+".undo_log")] {
		out = append(out, [3]string{fmt.Sprint(r[2]), fmt.Sprint(r[1]), fmt.Sprint(r[5])})
	}
	return out
}

// LastMeta: simulated instant of the latest information_schema look-up.
func (h *dbHook) LastMeta() time.Duration {
	h.mu.Lock()
	defer h.mu.Unlock()
	return h.lastMeta
}
