package sim

import (
	"bytes"
	"context"
	"database/sql"
	"encoding/json"
	"errors"
	"fmt"
	"runtime"
	"runtime/pprof"
	sqlexec "seata.apache.org/seata-go/pkg/datasource/sql/exec"
	"seata.apache.org/seata-go/pkg/datasource/sql/types"
	"sort"
	"strings"
	"sync"
	"sync/atomic"
	"testing"
	"time"

	"seata.apache.org/seata-go/pkg/rm/tcc"
	"seata.apache.org/seata-go/pkg/tm"

	"verif/simdb"
	"verif/simkit"
	"verif/simnet"
)

// C20 — concurrent use of one client is free of data races and lock-ups.
//
// The binary is built with -race. Inside the bubble N worker goroutines run
// free (database statements are not scheduling points here) and drive M
// global transactions each - AT, XA and TCC, commits and rollbacks - through
// one initialised client, one AT handle and one XA handle, while the
// coordinator model's phase-two requests arrive and the pools open new
// connections. The driver turns race-detector reports of the child into
// violations; the engine checks termination, connection and goroutine
// accounting and the data.

type C20Plan struct {
	Workers  int   `json:"workers"`
	PerWork  int   `json:"per_worker"`
	MaxIdle  int   `json:"max_idle"`
	MaxOpen  int   `json:"max_open"`
	Cfg      ATCfg `json:"cfg"`
	GoschedP int   `json:"gosched_pct"`
	// P2LostConn: after the batch one more round of XA transactions (one per
	// worker, at once) in which the first n XA COMMITs and the first n XA
	// ROLLBACKs of phase two meet a lost connection (0 = no such round)
	P2LostConn int `json:"p2_lost_conn,omitempty"`
}

type c20Action struct {
	tries, confirms, cancels int64
}

func (a *c20Action) Prepare(ctx context.Context, params interface{}) (bool, error) {
	atomic.AddInt64(&a.tries, 1)
	return true, nil
}
func (a *c20Action) Commit(ctx context.Context, b *tm.BusinessActionContext) (bool, error) {
	atomic.AddInt64(&a.confirms, 1)
	return true, nil
}
func (a *c20Action) Rollback(ctx context.Context, b *tm.BusinessActionContext) (bool, error) {
	atomic.AddInt64(&a.cancels, 1)
	return true, nil
}
func (a *c20Action) GetActionName() string { return "c20-action" }

func runC20(t *testing.T, seed uint64, planJSON []byte, tier string) (res *Result) {
	res = &Result{}
	plan := &C20Plan{}
	if planJSON != nil {
		if err := json.Unmarshal(planJSON, plan); err != nil || plan.Workers < 1 || plan.Workers > 64 || plan.PerWork < 1 || plan.PerWork > 64 {
			res.InvalidPlan = "bad plan"
			return res
		}
	} else {
		g := simkit.NewGen(seed)
		plan.Workers = g.Range(2, 8)
		plan.PerWork = g.Range(4, 8)
		if tier == "thorough" {
			plan.Workers = g.Range(2, 16)
			plan.PerWork = g.Range(4, 10)
		}
		plan.MaxIdle = simkit.Pick(g, []int{0, 1, 2, 8})
		plan.MaxOpen = simkit.Pick(g, []int{0, 0, 4, 16})
		plan.Cfg = genATCfg(g, true)
		plan.Cfg.ServerVersion = simkit.Pick(g, []string{"8.0.30", "8.0.30", "5.7.40", "8.0.28"})
		// every request of every goroutine goes through session selection
		plan.Cfg.LoadBalance = simkit.Pick(g, []string{"RandomLoadBalance", "XID", "RoundRobinLoadBalance", "ConsistentHashLoadBalance", "ConsistentHashLoadBalance", "LeastActiveLoadBalance"})
		plan.GoschedP = simkit.Pick(g, []int{0, 10, 50})
		if g.Bool() {
			plan.P2LostConn = g.Range(1, 3)
		}
	}
	tape := simkit.NewTape(seed)
	stallDone := make(chan struct{})
	defer close(stallDone)
	startStallObserver("C20", seed, func() []byte { b, _ := json.Marshal(plan); return b }, *flagOut, 25*time.Second, stallDone)
	res.Harness = runBubble(t, func(t *testing.T) {
		w := bootAT(seed, tape, plan.Cfg, simnet.Config{FragmentPct: 5})
		sim := w.Sim
		sim.Known = loadKnown("C20")
		sim.MaxStep = 5000000
		sim.MaxTime = 100000 * time.Hour
		w.Hook.park = false
		// xids of a server that has been up for a while (session selection by
		// xid hash sees other parts of its ring from run to run)
		w.TC.StartXidsAt(1000 + int64(seed%977)*131)
		w.Hook.latencyMs, w.Hook.latSeq = 3, seed|1
		sim.Batch, sim.BatchWindow = true, 20*time.Millisecond
		w.CreateUndoLog(atSchema)
		mk := func(name string, n int) {
			w.Srv.CreateTable(atSchema, name, []*simdb.Column{
				simdb.NewColumn("id", "int", "not null"),
				simdb.NewColumn("v", "int", "not null"),
				simdb.NewColumn("note", "varchar(32)"),
			}, []string{"id"}, nil)
			var rows [][]interface{}
			for i := 1; i <= n; i++ {
				rows = append(rows, []interface{}{int64(i), int64(0), nil})
			}
			w.Srv.LoadRows(atSchema, name, rows)
		}
		mk("t_at", plan.Workers)
		mk("t_xa", plan.Workers)
		// a table whose metadata the client cannot load: the functional key part
		// of its second index has no column name in information_schema
		w.Srv.CreateTable(atSchema, "t_fx", []*simdb.Column{
			simdb.NewColumn("id", "int", "not null"),
			simdb.NewColumn("v", "int", "not null"),
		}, []string{"id"}, []*simdb.Index{{Name: "ix_fx", Cols: []string{""}}})
		w.Srv.LoadRows(atSchema, "t_fx", [][]interface{}{{int64(1), int64(0)}})
		w.Net.Open(TCAddr)
		sim.Run(func() bool { return w.TC.SessionIsTM(0) && sim.Enabled() == 0 })
		var atDB, xaDB *sql.DB
		var err error
		dsn := "root:pw@tcp(simdb1:3306)/" + atSchema + simDSNParams
		act := &c20Action{}
		var proxy *tcc.TCCServiceProxy
		ok := runOnActor(sim, "open-ds", 300*time.Second, func() {
			atDB, err = w.OpenDS(atSchema)
			if err == nil {
				err = atDB.Ping()
			}
			if err == nil {
				xaDB, err = sql.Open("seata-xa-sim", dsn)
			}
			if err == nil {
				err = xaDB.Ping()
			}
			if err == nil {
				proxy, err = tcc.NewTCCServiceProxy(act)
			}
		})
		if !ok || err != nil {
			res.Harness = fmt.Sprintf("cannot open the data sources: done=%v err=%v", ok, err)
			return
		}
		for _, db := range []*sql.DB{atDB, xaDB} {
			db.SetMaxIdleConns(plan.MaxIdle)
			db.SetMaxOpenConns(plan.MaxOpen)
		}
		// the application's SQL hooks (public API of the executor registry): one
		// for every statement, one per statement type; a type hook must only ever
		// see statements of its type
		var hookCalls, hookWrongType int64
		sqlexec.RegisterCommonHook(&c20Hook{typ: types.SQLTypeUnknown, calls: &hookCalls, wrong: &hookWrongType})
		for _, ty := range []types.SQLType{types.SQLTypeUpdate, types.SQLTypeInsert, types.SQLTypeDelete, types.SQLTypeSelect} {
			sqlexec.RegisterHook(&c20Hook{typ: ty, calls: &hookCalls, wrong: &hookWrongType})
		}
		errRollback := errors.New("business rolls back")
		// one transaction of a kind; returns whether it committed
		forceKind := ""
		one := func(g *simkit.Gen, wid, k int) (kind string, committed bool, err error) {
			kind = []string{"at", "at", "xa", "tcc", "at-tx", "local", "at", "xa", "tcc", "at-tx", "local", "at-fx"}[g.Intn(12)]
			if forceKind != "" {
				kind = forceKind
			}
			wantRollback := g.Prob(0.3)
			fxFailed := false
			if kind == "local" {
				_, err = atDB.ExecContext(context.Background(), "UPDATE t_at SET note = ? WHERE id = ?", fmt.Sprintf("w%d-%d", wid, k), wid)
				return kind, false, err
			}
			err = tm.WithGlobalTx(context.Background(), &tm.GtxConfig{Name: fmt.Sprintf("c20-%d-%d", wid, k), Timeout: 120 * time.Second}, func(ctx context.Context) error {
				switch kind {
				case "at":
					if _, e := atDB.ExecContext(ctx, "UPDATE t_at SET v = v + 1 WHERE id = ?", wid); e != nil {
						return e
					}
				case "at-fx":
					// must come back, with whatever the client makes of the table
					// (today: an error, its metadata loader cannot read the index)
					if _, e := atDB.ExecContext(ctx, "UPDATE t_fx SET v = v + 1 WHERE id = 1"); e != nil {
						fxFailed = true
						return errRollback
					}
				case "at-tx":
					tx, e := atDB.BeginTx(ctx, nil)
					if e != nil {
						return e
					}
					if _, e = tx.ExecContext(ctx, "UPDATE t_at SET v = v + 1 WHERE id = ?", wid); e != nil {
						tx.Rollback()
						return e
					}
					if e = tx.Commit(); e != nil {
						return e
					}
				case "xa":
					if _, e := xaDB.ExecContext(ctx, "UPDATE t_xa SET v = v + 1 WHERE id = ?", wid); e != nil {
						return e
					}
				case "tcc":
					if _, e := proxy.Prepare(ctx, map[string]interface{}{"w": wid}); e != nil {
						return e
					}
				}
				if wantRollback {
					return errRollback
				}
				return nil
			})
			if (wantRollback || fxFailed) && err != nil && (errors.Is(err, errRollback) || strings.Contains(err.Error(), errRollback.Error())) {
				return kind, false, nil
			}
			return kind, err == nil, err
		}
		// warm-up (lazily started goroutines, table metadata, first connections)
		runOnActorFree := func(f func()) bool {
			done := int32(0)
			go func() { defer atomic.StoreInt32(&done, 1); f() }()
			t0 := sim.Now()
			sim.Run(func() bool { return atomic.LoadInt32(&done) == 1 || sim.Now()-t0 > 600*time.Second })
			return atomic.LoadInt32(&done) == 1
		}
		wg0 := simkit.NewGen(seed ^ 1)
		warm := runOnActorFree(func() {
			for k, kd := range []string{"at", "xa", "tcc", "at-tx", "local"} {
				forceKind = kd
				one(wg0, 1, -k)
			}
			forceKind = ""
		})
		if !warm {
			sim.Violate("C20", "termination", "warm-up-stuck", "the warm-up transactions did not finish")
			finishResult(res, sim)
			return
		}
		settle := func() {
			t1 := sim.Now()
			sim.Run(func() bool {
				return sim.Now()-t1 > 300*time.Second || (sim.Enabled() == 0 && w.TC.PendingP2() == 0 && sim.Now()-t1 > 10*time.Second)
			})
		}
		settle()
		w.Srv.LoadRows(atSchema, "t_at", nil)
		w.Srv.LoadRows(atSchema, "t_xa", nil)
		mkRows := func(name string) {
			var rows [][]interface{}
			for i := 1; i <= plan.Workers; i++ {
				rows = append(rows, []interface{}{int64(i), int64(0), nil})
			}
			w.Srv.LoadRows(atSchema, name, rows)
		}
		mkRows("t_at")
		mkRows("t_xa")
		profile := func() map[string]int {
			// goroutines by the function that created them
			var buf bytes.Buffer
			pprof.Lookup("goroutine").WriteTo(&buf, 2)
			out := map[string]int{}
			for _, blk := range strings.Split(buf.String(), "\n\n") {
				key := "(root)"
				for _, l := range strings.Split(blk, "\n") {
					if strings.HasPrefix(l, "created by ") {
						key = strings.TrimPrefix(l, "created by ")
						if k := strings.Index(key, " in goroutine"); k >= 0 {
							key = key[:k]
						}
					}
				}
				if strings.TrimSpace(blk) != "" {
					out[key]++
				}
			}
			return out
		}
		// start the batch just before the next pass of the metadata refresher so
		// that the refresh runs among the workers' statements: the phase of its
		// one-minute ticker is learnt from the first pass that reads the
		// information schema after the warm-up filled the cache
		{
			tWarm := sim.Now()
			sim.Run(func() bool { return w.Hook.LastMeta() > tWarm || sim.Now()-tWarm > 125*time.Second })
			phase := w.Hook.LastMeta()
			if phase > tWarm {
				sim.Probe("c20-refresher-pass-observed")
				settle()
				lead := time.Duration(8+8*int(seed%4)) * time.Millisecond
				target := phase + ((sim.Now()-phase)/time.Minute+1)*time.Minute - lead
				if d := target - sim.Now(); d > 0 {
					sim.Sleep(d)
				}
			} else {
				sim.Probe("c20-refresher-pass-not-observed")
			}
		}
		var ys *yieldState
		if *flagMode == "yield" {
			if !yieldBuilt {
				res.Harness = "mode yield needs the binary built from the instrumented copy (tag verifyield)"
				return
			}
			ys = installYield(seed)
		}
		prof0 := profile()
		g0 := runtime.NumGoroutine()
		// server-side connections that are open and not resting in a pool (the
		// last thing a pool does with a connection it keeps is the validity
		// check on return): connections the client opened and forgot
		strays := func() map[int]string {
			last := map[int]string{}
			for _, e := range w.Srv.JournalFrom(0) {
				last[e.Conn] = e.Kind
			}
			out := map[int]string{}
			for _, cs := range w.Srv.ConnStates() {
				if !cs.Closed && last[cs.ID] != "VALID" {
					out[cs.ID] = last[cs.ID]
				}
			}
			return out
		}
		// server-side open connections that no handle accounts for (a connection
		// may rest in a pool right after CONNECT, when it was opened for a waiter
		// that got served otherwise; so the journal alone does not tell)
		surplus := func() int {
			open := 0
			for _, cs := range w.Srv.ConnStates() {
				if !cs.Closed {
					open++
				}
			}
			for _, db := range []*sql.DB{atDB, xaDB, w.Bare} {
				if db != nil {
					open -= db.Stats().OpenConnections
				}
			}
			return open
		}
		stray0 := strays()
		surplus0 := surplus()
		// the batch
		var mu sync.Mutex
		wantAT := map[int]int{}
		wantXA := map[int]int{}
		var errs []string
		firstFailKind := ""
		var finished int32
		kinds := map[string]int{}
		for wi := 1; wi <= plan.Workers; wi++ {
			wi := wi
			go func() {
				defer atomic.AddInt32(&finished, 1)
				g := simkit.NewGen(seed ^ uint64(wi)*7919)
				for k := 0; k < plan.PerWork; k++ {
					if plan.GoschedP > 0 && g.Intn(100) < plan.GoschedP {
						runtime.Gosched()
					}
					kind, committed, err := one(g, wi, k)
					mu.Lock()
					kinds[kind]++
					if err != nil {
						errs = append(errs, fmt.Sprintf("worker %d tx %d (%s): %v", wi, k, kind, err))
						if firstFailKind == "" || kind < firstFailKind {
							firstFailKind = kind
						}
					}
					if committed {
						switch kind {
						case "at", "at-tx":
							wantAT[wi]++
						case "xa":
							wantXA[wi]++
						}
					}
					mu.Unlock()
				}
			}()
		}
		t0 := sim.Now()
		sim.Run(func() bool {
			return int(atomic.LoadInt32(&finished)) == plan.Workers || sim.Now()-t0 > 1800*time.Second
		})
		if int(atomic.LoadInt32(&finished)) != plan.Workers {
			sim.Violate("C20", "termination", "transaction-stuck", "%d of %d workers did not finish their %d transactions within 1800 simulated seconds", plan.Workers-int(finished), plan.Workers, plan.PerWork)
			finishResult(res, sim)
			return
		}
		settle()
		if ys != nil {
			fired, sites := ys.stop()
			sim.Note("scheduling points: %d delays at %d active sites", fired, sites)
			for i := 0; i < fired; i++ {
				sim.Fault("goroutine-delayed-at-lock")
			}
			for i := 0; i < ys.windows(); i++ {
				sim.Probe("c20-rare-writer-ran-inside-a-window-after-unlock")
			}
			if n, met := ys.recursiveReadLocks(); n > 0 {
				for i := 0; i < n; i++ {
					sim.Probe("c20-read-lock-taken-twice-by-one-goroutine")
				}
				for i := 0; i < met; i++ {
					sim.Probe("c20-read-lock-taken-twice-with-writer-queued")
				}
			}
		}
		mu.Lock()
		defer mu.Unlock()
		if len(errs) > 0 {
			sim.Violate("C20", "every-transaction-completes", "transaction-failed-"+firstFailKind, "%d transaction(s) failed although no fault was injected and the workers use disjoint rows; first: %s", len(errs), errs[0])
		}
		// data
		snap := w.Srv.Snapshot()
		for wi := 1; wi <= plan.Workers; wi++ {
			for _, tc := range []struct {
				tab  string
				want int
			}{{"shop.t_at", wantAT[wi]}, {"shop.t_xa", wantXA[wi]}} {
				var got int64 = -1
				for _, row := range snap[tc.tab] {
					if id, _ := argInt(row[0]); int(id) == wi {
						got, _ = argInt(row[1])
					}
				}
				if int(got) != tc.want {
					sim.Violate("C20", "every-transaction-completes", "lost-or-extra-update-"+tc.tab, "row %d of %s is %d after %d committed increments", wi, tc.tab, got, tc.want)
				}
			}
		}
		if n := len(snap["shop.undo_log"]); n > 0 {
			sim.Violate("C20", "every-transaction-completes", "undo-log-left", "%d undo_log row(s) are left after all transactions ended and phase two settled", n)
		}
		if p := w.Srv.PreparedXA(); len(p) > 0 {
			sim.Violate("C20", "every-transaction-completes", "xa-branch-left", "prepared XA branches left: %v", p)
		}
		// connections and goroutines
		for name, db := range map[string]*sql.DB{"at": atDB, "xa": xaDB} {
			if st := db.Stats(); st.InUse != 0 {
				sim.Violate("C20", "no-connection-lost", "connection-in-use-"+name, "the %s handle still has %d connection(s) in use after the batch", name, st.InUse)
			}
		}
		{
			var lost []string
			for id, kind := range strays() {
				if _, before := stray0[id]; !before {
					lost = append(lost, fmt.Sprintf("c%d (last: %s)", id, kind))
				}
			}
			sort.Strings(lost)
			if len(lost) > 0 && surplus() <= surplus0 {
				sim.Probe("c20-fresh-connection-resting-in-pool")
				lost = nil
			}
			if len(lost) > 0 {
				sim.Violate("C20", "no-connection-lost", "connection-left-open", "%d database connection(s) opened during the batch are still open and in no pool after it: %v", len(lost), lost)
			}
		}
		if n := atomic.LoadInt64(&hookWrongType); n > 0 {
			sim.Violate("C20", "no-data-race", "hook-ran-for-other-statement-type", "%d time(s) a SQL hook registered for one statement type was run for a statement of another type (%d hook calls in all)", n, atomic.LoadInt64(&hookCalls))
		}
		if atomic.LoadInt64(&hookCalls) > 0 {
			sim.Probe("c20-sql-hooks-ran")
		}
		if n := w.Srv.OpenTxnCount(); n > 0 {
			sim.Violate("C20", "no-connection-lost", "transaction-left-open", "%d local transaction(s) still open after the batch", n)
		}
		// the transport's task pool (dubbogo/gost) starts its workers on demand
		// up to a fixed size and keeps them: bounded, not a leak
		poolWorker := "github.com/dubbogo/gost/sync.(*taskPoolSimple)"
		prof1 := profile()
		g0 -= 0
		g1 := runtime.NumGoroutine() - (sumPrefix(prof1, poolWorker) - sumPrefix(prof0, poolWorker))
		if g1 > g0+2 {
			var heads []string
			for k, n := range prof1 {
				if n > prof0[k] {
					heads = append(heads, fmt.Sprintf("+%d %s", n-prof0[k], k))
				}
			}
			sort.Strings(heads)
			sim.Violate("C20", "no-goroutine-lost", "goroutines-grew", "goroutines before the batch: %d, after it settled: %d; grown: %s", g0, g1, strings.Join(heads, "; "))
		}
		// phase two over connections that die: the client may finish the branch
		// on another connection or leave it to the coordinator's retries, but it
		// must come back and must not forget a connection it opened
		if plan.P2LostConn > 0 && len(sim.Violations()) == 0 {
			mu.Unlock()
			stray1 := strays()
			surplus1 := surplus()
			var faults []DBFault
			for n := 1; n <= plan.P2LostConn; n++ {
				faults = append(faults, DBFault{Class: "xa-commit", Nth: n, Kind: "badconn"}, DBFault{Class: "xa-rollback", Nth: n, Kind: "badconn"})
			}
			w.Hook.Reset(faults)
			var fin int32
			forceKind = "xa"
			for wi := 1; wi <= plan.Workers; wi++ {
				wi := wi
				go func() {
					defer atomic.AddInt32(&fin, 1)
					one(simkit.NewGen(seed^uint64(wi)*104729), wi, 1000)
				}()
			}
			t0 := sim.Now()
			sim.Run(func() bool { return int(atomic.LoadInt32(&fin)) == plan.Workers || sim.Now()-t0 > 1800*time.Second })
			if int(atomic.LoadInt32(&fin)) != plan.Workers {
				sim.Violate("C20", "termination", "stuck-after-lost-phase-two-connection", "%d of %d XA transactions whose phase two met a lost connection did not return within 1800 simulated seconds", plan.Workers-int(fin), plan.Workers)
			}
			settle()
			forceKind = ""
			w.Hook.Reset(nil)
			var lost []string
			for id, kind := range strays() {
				if _, before := stray1[id]; !before {
					lost = append(lost, fmt.Sprintf("c%d (last: %s)", id, kind))
				}
			}
			sort.Strings(lost)
			if len(lost) > 0 && surplus() <= surplus1 {
				sim.Probe("c20-fresh-connection-resting-in-pool")
				lost = nil
			}
			if len(lost) > 0 {
				sim.Violate("C20", "no-connection-lost", "connection-left-open-after-lost-phase-two-connection", "%d database connection(s) opened while phase two met lost connections are still open and in no pool: %v", len(lost), lost)
			}
			if st := xaDB.Stats(); st.InUse != 0 {
				sim.Violate("C20", "no-connection-lost", "connection-in-use-xa", "the xa handle still has %d connection(s) in use after the round with lost phase-two connections", st.InUse)
			}
			mu.Lock()
		}
		sim.State(fmt.Sprintf("!c20 workers=%d per=%d idle=%d open=%d kinds=%d", plan.Workers, plan.PerWork, plan.MaxIdle, plan.MaxOpen, len(kinds)))
		res.Episodes = plan.Workers * plan.PerWork
		finishResult(res, sim)
	})
	res.Plan, _ = json.Marshal(plan)
	res.Components = atComponents
	return res
}

func sumPrefix(m map[string]int, prefix string) int {
	n := 0
	for k, v := range m {
		if strings.HasPrefix(k, prefix) {
			n += v
		}
	}
	return n
}

// c20Hook is an application SQL hook.
type c20Hook struct {
	typ          types.SQLType
	calls, wrong *int64
}

func (h *c20Hook) Type() types.SQLType { return h.typ }
func (h *c20Hook) check(execCtx *types.ExecContext) {
	atomic.AddInt64(h.calls, 1)
	if h.typ != types.SQLTypeUnknown && execCtx != nil && execCtx.ParseContext != nil && execCtx.ParseContext.SQLType != h.typ {
		atomic.AddInt64(h.wrong, 1)
	}
}
func (h *c20Hook) Before(ctx context.Context, execCtx *types.ExecContext) error {
	h.check(execCtx)
	return nil
}
func (h *c20Hook) After(ctx context.Context, execCtx *types.ExecContext) error {
	h.check(execCtx)
	return nil
}

func init() { engines["C20"] = runC20 }
