package sim

import (
	"context"
	"database/sql"
	"encoding/json"
	"errors"
	"fmt"
	"regexp"
	"sort"
	"strconv"
	"strings"
	"testing"
	"time"

	"seata.apache.org/seata-go/pkg/datasource/sql/types"
	"seata.apache.org/seata-go/pkg/datasource/sql/undo"
	undobase "seata.apache.org/seata-go/pkg/datasource/sql/undo/base"
	"seata.apache.org/seata-go/pkg/tm"

	"verif/simdb"
	"verif/simkit"
	"verif/simnet"
	"verif/simtc"
)

const atSchema = "shop"

type ATEpisode struct {
	Branches []ATBranch `json:"branches"`
	Outcome  string     `json:"outcome"` // rollback | commit
	// Between: other global transactions committed on fresh rows between phase one and phase two
	Between  int          `json:"between,omitempty"`
	DBFaults []DBFault    `json:"db_faults,omitempty"`
	TCRules  []simtc.Rule `json:"tc_rules,omitempty"`
	// Foreign statements executed by a bare connection after the local commits and before phase two (C09)
	Foreign []ATStmt `json:"foreign,omitempty"`
	// RaceForeign: the foreign statements are not finished before phase two but
	// issued by an actor of their own, which the scheduler interleaves with the
	// statements of the rollback transaction
	RaceForeign bool `json:"race_foreign,omitempty"`
	// otherRow (observed, not planned): an upsert of the episode met its
	// duplicate on a row with another primary key than the one it names
	otherRow bool
	// blindRow (observed): an upsert inserted a row with a generated primary key
	// and NULL in every unique index - nothing in the statement identifies it
	blindRow bool
	// Redeliver: extra BranchRollback deliveries after the first round (C10)
	Redeliver int `json:"redeliver,omitempty"`
	// P2Faults (non-nil): database faults armed when phase one is over, counted from there (C10)
	P2Faults []DBFault `json:"p2_faults"`
	// CfgSwitch: configuration in force during phase two (C08: redeploy between the phases)
	CfgSwitch *ATCfg `json:"cfg_switch,omitempty"`
	// StopOnErr: the business returns the first statement / commit error (the
	// global transaction is then rolled back by the TM)
	StopOnErr bool `json:"stop_on_err,omitempty"`
	// RetryOnce: the application runs a failed autocommit statement once more
	// on the same handle before it gives up (retry after a lock conflict)
	RetryOnce bool `json:"retry_once,omitempty"`
	// AppContinues (C17): the application notes a failed autocommit statement,
	// carries on with the following ones and lets the global transaction commit
	AppContinues bool `json:"app_continues,omitempty"`
	// Fault describes the single injected fault of a C02 episode (informational + oracle)
	Fault string `json:"fault,omitempty"`
}

type ATPlan struct {
	Mode     string      `json:"mode"`
	Cfg      ATCfg       `json:"cfg"`
	Opts     GenOpts     `json:"opts"`
	Tables   []TableDef  `json:"tables"`
	Episodes []ATEpisode `json:"episodes"`
	Tape     []int       `json:"tape"`
}

type stmtRes struct {
	Branch, Idx int
	Err         error
	Affected    int64
	LastID      int64
}

type atRun struct {
	w     *ATWorld
	plan  *ATPlan
	prop  string
	res   *Result
	db    *sql.DB
	flush []*undo.BranchUndoLog
	// stable lock-key text per row over the whole run (C03 oracle 2)
	keyText map[string]string
	// foreignGen, when set, produces the foreign writer's statements at the
	// "after the local commits" point (C09)
	foreignGen func(jstart int) []ATStmt
}

// violate records a violation; violations of other properties than the one
// being checked are only counted (their own checks run the same engine).
func (r *atRun) violate(prop, clause, class, f string, a ...any) {
	if prop != r.prop {
		r.w.Sim.Probe("other-property-violation-" + prop + "-" + clause)
		return
	}
	r.w.Sim.Violate(prop, clause, class, f, a...)
}

func runOnActor(sim *simkit.Sim, name string, bound time.Duration, f func()) bool {
	done := false
	sim.Go(name, func() {
		defer func() { done = true }()
		f()
	})
	t0 := sim.Now()
	sim.Run(func() bool { return done || sim.Now()-t0 > bound })
	return done
}

// setupAT boots the world, installs the schema and opens the data source.
func setupAT(seed uint64, tape *simkit.Tape, plan *ATPlan, prop string, res *Result) *atRun {
	w := bootAT(seed, tape, plan.Cfg, simnet.Config{FragmentPct: 10})
	w.Sim.Known = loadKnown(prop)
	w.Sim.MaxStep = 3000000
	w.Sim.MaxTime = 100000 * time.Hour
	r := &atRun{w: w, plan: plan, prop: prop, res: res, keyText: map[string]string{}}
	w.CreateUndoLog(atSchema)
	for i := range plan.Tables {
		if err := plan.Tables[i].install(w.Srv, atSchema); err != nil {
			res.InvalidPlan = "table " + plan.Tables[i].Name + ": " + err.Error()
			return nil
		}
	}
	undobase.VerifFlushObserver = func(l *undo.BranchUndoLog) {
		cp := *l
		cp.Logs = append([]undo.SQLUndoLog(nil), l.Logs...)
		r.flush = append(r.flush, &cp)
	}
	w.Net.Open(TCAddr)
	w.Sim.Run(func() bool { return w.TC.SessionIsTM(0) && w.Sim.Enabled() == 0 })
	var err error
	ok := runOnActor(w.Sim, "open-ds", 300*time.Second, func() {
		r.db, err = w.OpenDS(atSchema)
		if err == nil {
			err = r.db.Ping()
		}
	})
	if !ok || err != nil {
		res.Harness = fmt.Sprintf("cannot open the AT data source: done=%v err=%v", ok, err)
		return nil
	}
	return r
}

func (r *atRun) resetData() error {
	for i := range r.plan.Tables {
		if err := r.plan.Tables[i].load(r.w.Srv, atSchema); err != nil {
			return err
		}
	}
	return r.w.Srv.LoadRows(atSchema, "undo_log", nil)
}

// appSnapshot is the snapshot restricted to application tables.
func appSnapshot(s simdb.Snapshot) simdb.Snapshot {
	out := simdb.Snapshot{}
	for k, v := range s {
		if !strings.HasSuffix(k, ".undo_log") && !strings.HasSuffix(k, ".tcc_fence_log") {
			out[k] = v
		}
	}
	return out
}

// runBusiness executes the branches of an episode inside the caller's
// (global transaction) context and returns per-statement results.
type execer interface {
	ExecContext(ctx context.Context, query string, args ...any) (sql.Result, error)
}

// safeExec runs one statement; a panic crossing the database/sql API is
// recorded (the application survives it like a careful application would).
func (r *atRun) safeExec(ctx context.Context, e execer, st ATStmt) (res sql.Result, err error) {
	defer func() {
		if p := recover(); p != nil {
			err = fmt.Errorf("PANIC out of ExecContext: %v", p)
			r.violate("C18", "reject-not-crash", "statement-panic-"+st.Kind, "statement %q panicked instead of being executed or rejected: %v", st.SQL, p)
			r.violate("C16", "same-result", "statement-panic-"+st.Kind, "statement %q panicked through the proxy: %v", st.SQL, p)
		}
	}()
	return e.ExecContext(ctx, st.SQL, goArgs(st.Args)...)
}

func (r *atRun) runBusiness(ctx context.Context, ep *ATEpisode, out *[]stmtRes) (first error) {
	defer func() {
		for _, sr := range *out {
			if sr.Err != nil && first == nil {
				first = sr.Err
			}
		}
	}()
	// the handle the business runs on: the pool, or (generator feature) one
	// connection of it for the whole episode - what an application does that
	// pins a connection with db.Conn
	type handle interface {
		execer
		BeginTx(ctx context.Context, opts *sql.TxOptions) (*sql.Tx, error)
	}
	var h handle = r.db
	if r.plan != nil && r.plan.Opts.DedicatedConn && r.prop != "none" {
		if r.plan.Opts.FreshConn {
			r.db.SetMaxIdleConns(0)
		}
		if c, err := r.db.Conn(ctx); err == nil {
			defer c.Close()
			h = c
			r.w.Sim.Probe("at-episode-on-one-dedicated-connection")
		}
	}
	for bi, br := range ep.Branches {
		if ep.StopOnErr {
			stop := false
			for _, sr := range *out {
				if sr.Err != nil {
					stop = true
				}
			}
			if stop {
				return
			}
		}
		if br.Explicit {
			tx, err := h.BeginTx(ctx, nil)
			if err != nil {
				*out = append(*out, stmtRes{Branch: bi, Idx: -1, Err: err})
				continue
			}
			failed := false
			for si, st := range br.Stmts {
				res, err := r.safeExec(ctx, tx, st)
				sr := stmtRes{Branch: bi, Idx: si, Err: err}
				if err == nil {
					sr.Affected, _ = res.RowsAffected()
					sr.LastID, _ = res.LastInsertId()
				}
				*out = append(*out, sr)
				r.w.Sim.Logf("APP branch %d stmt %d -> affected=%d err=%v", bi, si, sr.Affected, err)
				if err != nil {
					failed = true
					if r.plan != nil && r.plan.Opts.ContinueAfterError && r.prop != "none" {
						// the application notes the failed statement and carries on with
						// its transaction (the database has undone the statement only)
						r.w.Sim.Probe("at-explicit-transaction-continues-after-failed-statement")
						continue
					}
					break
				}
			}
			if failed && !(r.plan != nil && r.plan.Opts.ContinueAfterError && r.prop != "none") {
				err = tx.Rollback()
				*out = append(*out, stmtRes{Branch: bi, Idx: -2, Err: err})
			} else {
				err = tx.Commit()
				*out = append(*out, stmtRes{Branch: bi, Idx: -3, Err: err})
			}
			continue
		}
		for si, st := range br.Stmts {
			res, err := r.safeExec(ctx, h, st)
			sr := stmtRes{Branch: bi, Idx: si, Err: err}
			if err == nil {
				sr.Affected, _ = res.RowsAffected()
				sr.LastID, _ = res.LastInsertId()
			}
			*out = append(*out, sr)
			r.w.Sim.Logf("APP branch %d stmt %d (autocommit) -> affected=%d err=%v", bi, si, sr.Affected, err)
			if err != nil && ep.RetryOnce {
				_, rerr := r.safeExec(ctx, h, st)
				r.w.Sim.Probe("at-failed-statement-retried-once")
				r.w.Sim.Logf("APP branch %d stmt %d (autocommit, retried) -> err=%v", bi, si, rerr)
			}
		}
	}
	return nil
}

var errBusiness = errors.New("business decided to roll back")

// episodeObs is everything observed during one episode.
type episodeObs struct {
	idx      int
	ep       *ATEpisode
	s0       simdb.Snapshot
	xid      string
	stmts    []stmtRes
	gerr     error
	done     bool
	jstart   int
	logStart int
	flush0   int
	final    simdb.Snapshot
	beforeP2 simdb.Snapshot // state after phase one (and the foreign writer), before phase two
	jP2      int            // journal length when beforeP2 was taken
	foreign  []ATStmt
	// fault counters of the simulator when the episode began
	faults0 map[string]int
	// app-table snapshots after each repeated delivery (C10)
	redelivered []simdb.Snapshot
}

func (r *atRun) runEpisode(idx int, ep *ATEpisode) *episodeObs {
	w := r.w
	sim, tc := w.Sim, w.TC
	o := &episodeObs{idx: idx, ep: ep}
	if err := r.resetData(); err != nil {
		r.res.InvalidPlan = err.Error()
		return nil
	}
	// an earlier episode may have cost the session (coordinator closed it):
	// reconnect like getty's client does, and wait until the client has
	// announced itself and its resources again
	anyOpen := false
	for _, ss := range w.Net.Sessions() {
		if !ss.IsClosed() {
			anyOpen = true
		}
	}
	if !anyOpen {
		ns := w.Net.Open(TCAddr)
		t0 := sim.Now()
		sim.Run(func() bool {
			return sim.Now()-t0 > 60*time.Second || (tc.SessionIsTM(int(ns.ID())) && len(tc.SessionResources(int(ns.ID()))) > 0 && sim.Enabled() == 0)
		})
		sim.Probe("at-session-reopened")
	}
	o.faults0 = map[string]int{}
	for k, v := range sim.Faults {
		o.faults0[k] = v
	}
	o.s0 = w.Srv.Snapshot()
	o.jstart = w.Srv.JournalLen()
	o.logStart = len(tc.Log)
	o.flush0 = len(r.flush)
	w.Hook.Reset(ep.DBFaults)
	tc.Rules = nil
	for _, rule := range ep.TCRules {
		if rule.Status != 0 {
			rule = tc.ArmStatusRule(rule)
		} else {
			rule.Nth += tc.CountOf(rule.Code)
		}
		tc.Rules = append(tc.Rules, rule)
	}
	sim.Go("at-business", func() {
		defer func() {
			if p := recover(); p != nil {
				o.gerr = fmt.Errorf("panic escaped: %v", p)
			}
			o.done = true
		}()
		o.gerr = tm.WithGlobalTx(context.Background(), &tm.GtxConfig{Name: fmt.Sprintf("at-%d", idx), Timeout: 60 * time.Second}, func(ctx context.Context) error {
			o.xid = tm.GetXID(ctx)
			berr := r.runBusiness(ctx, ep, &o.stmts)
			if ep.StopOnErr && berr != nil {
				return berr
			}
			foreign := ep.Foreign
			if r.foreignGen != nil {
				foreign = r.foreignGen(o.jstart)
			}
			if len(foreign) > 0 && ep.RaceForeign {
				stmts := foreign
				sim.Go("at-foreign-racer", func() {
					for k, st := range stmts {
						// let a tape-chosen number of other events pass first, so that
						// the statement lands somewhere inside phase two
						for d, n := 0, sim.Tape.Choose(12); d <= n; d++ {
							sim.Park(fmt.Sprintf("at-foreign-race|%02d|%02d", k, d), "foreign writer (racing phase two)")
						}
						_, err := w.Bare.Exec(st.SQL, goArgs(st.Args)...)
						sim.Logf("FOREIGN (racing) %s %v -> %v", st.SQL, st.Args, err)
					}
				})
			} else if len(foreign) > 0 {
				// a foreign writer (no global transaction) touches rows after the local commits
				sim.Park("at-foreign", "foreign writer")
				for _, st := range foreign {
					_, err := w.Bare.Exec(st.SQL, goArgs(st.Args)...)
					sim.Logf("FOREIGN %s %v -> %v", st.SQL, st.Args, err)
				}
			}
			o.foreign = foreign
			o.beforeP2 = w.Srv.Snapshot()
			o.jP2 = w.Srv.JournalLen()
			if ep.P2Faults != nil {
				w.Hook.Reset(ep.P2Faults)
			}
			for k := 0; k < ep.Between; k++ {
				// another global transaction commits on rows of its own meanwhile
				sim.Park("at-between", "")
			}
			if ep.Outcome == "rollback" {
				return errBusiness
			}
			return nil
		})
	})
	t0 := sim.Now()
	sim.Run(func() bool { return o.done || sim.Now()-t0 > 1200*time.Second })
	// let phase two of a commit (asynchronous) and stragglers finish
	t1 := sim.Now()
	sim.Run(func() bool {
		if sim.Now()-t1 > 600*time.Second {
			return true
		}
		g := tc.Globals[o.xid]
		if g != nil && (g.Status == simtc.GSCommitting || g.Status == simtc.GSRollbacking) {
			return false
		}
		return sim.Enabled() == 0 && tc.PendingP2() == 0 && sim.Now()-t1 > 5*time.Second
	})
	o.final = w.Srv.Snapshot()
	for _, e := range w.Srv.JournalFrom(o.jstart) {
		for _, n := range e.Notes {
			if n == "dup-on-other-row" && !r.isHarnessConn(e.Conn) {
				ep.otherRow = true
			}
			if n == "upsert-new-row-auto-pk-null-unique" && !r.isHarnessConn(e.Conn) {
				ep.blindRow = true
			}
		}
	}
	if o.xid == "" {
		// the global transaction never began: whatever the episode meant to exercise did not happen
		sim.Probe("episode-without-global-transaction")
	}
	if ep.Redeliver > 0 && o.done {
		r.redeliver(o, ep.Redeliver)
	}
	r.res.Episodes++
	return o
}

// ---- value equivalence between client images and the database model ------------------------

func imageValueEquals(img interface{}, stored interface{}) bool {
	// a nil byte slice in an image is SQL NULL (it is serialized as null); an
	// empty non-nil slice is the empty value
	switch x := img.(type) {
	case sql.RawBytes:
		if x == nil {
			img = nil
		}
	case []byte:
		if x == nil {
			img = nil
		}
	}
	if img == nil || stored == nil {
		return img == nil && stored == nil
	}
	switch s := stored.(type) {
	case int64:
		switch x := img.(type) {
		case int64:
			return x == s
		case int32:
			return int64(x) == s
		case int:
			return int64(x) == s
		case float64:
			return x == float64(s)
		case uint64:
			return s >= 0 && x == uint64(s)
		case []byte:
			return string(x) == fmt.Sprint(s)
		case string:
			return x == fmt.Sprint(s)
		}
	case uint64:
		switch x := img.(type) {
		case uint64:
			return x == s
		case int64:
			return x >= 0 && uint64(x) == s
		}
	case float32:
		switch x := img.(type) {
		case float64:
			return float32(x) == s
		case float32:
			return x == s
		}
	case float64:
		switch x := img.(type) {
		case float64:
			return x == s
		case float32:
			return float64(x) == s
		}
	case string:
		switch x := img.(type) {
		case string:
			return x == s
		case []byte:
			return string(x) == s
		case sql.RawBytes:
			return string(x) == s
		case float64:
			// DECIMAL scanned as float64
			f, ok := parseFloatOK(s)
			return ok && f == x
		}
	case []byte:
		switch x := img.(type) {
		case []byte:
			return string(x) == string(s)
		case sql.RawBytes:
			return string(x) == string(s)
		case string:
			return x == string(s)
		case int64:
			// BIT / LONGBLOB scanned as integer by GetScanSlice
			var u uint64
			for _, b := range s {
				u = u<<8 | uint64(b)
			}
			return uint64(x) == u
		}
	case time.Time:
		if x, ok := img.(time.Time); ok {
			return x.Equal(s)
		}
	}
	return false
}

func parseFloatOK(s string) (float64, bool) {
	var f float64
	_, err := fmt.Sscanf(s, "%g", &f)
	return f, err == nil
}

// ---- oracles -----------------------------------------------------------------------------------

// localTxns groups the journal of an episode into local transactions of the
// proxied connections (BEGIN..COMMIT/ROLLBACK or auto-commit statements).
type localTxn struct {
	conn      int
	first     int // index (in the journal slice given to splitLocalTxns) of the first entry
	last      int // index of the last entry seen
	entries   []simdb.JEntry
	committed bool
	rolled    bool
	commitSeq uint64
	writes    []simdb.RowWrite
	undoIns   *simdb.JEntry
}

func splitLocalTxns(j []simdb.JEntry) []*localTxn {
	open := map[int]*localTxn{}
	var out []*localTxn
	for i := range j {
		e := j[i]
		switch e.Kind {
		case "BEGIN":
			if e.Err == "" {
				t := &localTxn{conn: e.Conn, first: i}
				open[e.Conn] = t
				out = append(out, t)
			}
		case "COMMIT":
			if t := open[e.Conn]; t != nil {
				t.entries = append(t.entries, e)
				t.last = i
				if e.Err == "" || strings.Contains(e.Err, "after the statement was applied") {
					t.committed = true
					t.commitSeq = e.Seq
					t.writes = e.Writes
				}
				if e.Err == "" || !e.InTxn {
					delete(open, e.Conn)
				}
			}
		case "ROLLBACK":
			if t := open[e.Conn]; t != nil {
				t.entries = append(t.entries, e)
				t.last = i
				if e.Err == "" {
					t.rolled = true
					delete(open, e.Conn)
				}
			}
		case "EXEC", "QUERY":
			if t := open[e.Conn]; t != nil {
				t.entries = append(t.entries, e)
				t.last = i
				if e.Class == "insert-undo" && e.Err == "" {
					// (log_status 1 = the "global finished" marker a rollback leaves
					// that found no undo log: phase two, not a branch's phase one)
					marker := false
					if len(e.Args) > 4 {
						if st, ok := argInt(e.Args[4]); ok && st == 1 {
							marker = true
						}
					}
					if !marker {
						ee := e
						t.undoIns = &ee
					}
				}
			} else if len(e.Writes) > 0 || e.Class == "insert" || e.Class == "update" || e.Class == "delete" {
				// auto-commit statement
				out = append(out, &localTxn{conn: e.Conn, first: i, last: i, entries: []simdb.JEntry{e}, committed: e.Err == "", commitSeq: e.Seq, writes: e.Writes})
			}
		case "CLOSE":
			delete(open, e.Conn)
		}
	}
	return out
}

func appWrites(ws []simdb.RowWrite) []simdb.RowWrite {
	var out []simdb.RowWrite
	for _, w := range ws {
		if !strings.HasSuffix(w.Table, ".undo_log") && !strings.HasSuffix(w.Table, ".tcc_fence_log") {
			out = append(out, w)
		}
	}
	return out
}

func argInt(v interface{}) (int64, bool) {
	switch x := v.(type) {
	case int64:
		return x, true
	case uint64:
		return int64(x), true
	case int:
		return int64(x), true
	case string:
		return simdb.ParseInt(x), true
	}
	return 0, false
}

// pkTextOfRow renders the primary key of a stored row the way lock keys spell it.
func pkTextOfRow(tab *simdb.Table, row simdb.Row) string {
	var parts []string
	for _, i := range tab.PKIdx() {
		switch x := row[i].(type) {
		case string:
			parts = append(parts, x)
		case []byte:
			parts = append(parts, string(x))
		default:
			parts = append(parts, fmt.Sprint(x))
		}
	}
	return strings.Join(parts, "_")
}

func parseLockKeyText(lockKey string) map[string]bool {
	out := map[string]bool{}
	for _, part := range strings.Split(lockKey, ";") {
		i := strings.Index(part, ":")
		if i < 0 {
			continue
		}
		table := strings.ToLower(strings.Trim(part[:i], "` "))
		for _, pk := range strings.Split(part[i+1:], ",") {
			if pk != "" {
				out[table+":"+normPKText(pk)] = true
			}
		}
	}
	return out
}

var expFloatRe = regexp.MustCompile(`^-?\d(\.\d+)?e[+-]\d+$`)

// normPKText: a key component the client printed as a floating-point number in
// exponent form names the same value as its plain decimal spelling (the
// property speaks of the key value, not of a number format).
func normPKText(pk string) string {
	parts := strings.Split(pk, "_")
	for i, p := range parts {
		if expFloatRe.MatchString(p) {
			if f, err := strconv.ParseFloat(p, 64); err == nil {
				parts[i] = strconv.FormatFloat(f, 'f', -1, 64)
			}
		}
	}
	return strings.Join(parts, "_")
}

// rawLockKeys: normalised key -> the text as sent.
func rawLockKeys(lockKey string) map[string]string {
	out := map[string]string{}
	for _, part := range strings.Split(lockKey, ";") {
		i := strings.Index(part, ":")
		if i < 0 {
			continue
		}
		table := strings.ToLower(strings.Trim(part[:i], "` "))
		for _, pk := range strings.Split(part[i+1:], ",") {
			if pk != "" {
				out[table+":"+normPKText(pk)] = pk
			}
		}
	}
	return out
}

// checkPhaseOne evaluates the phase-one invariants (C02 a,b,d; C03 1,2; C18; C08)
// over the journal, the coordinator log and the captured undo logs of an episode.
func (r *atRun) checkPhaseOne(o *episodeObs) {
	w := r.w
	j := w.Srv.JournalFrom(o.jstart)
	tcLog := w.TC.Log[o.logStart:]
	txns := splitLocalTxns(j)
	// branch register grants by branch id
	type grant struct {
		seq     uint64
		lockKey string
		res     string
	}
	grants := map[int64]grant{}
	regReq := map[int32]*simtc.Msg{}
	for _, rec := range tcLog {
		if rec.F.Body == nil {
			continue
		}
		switch rec.F.Body.Code {
		case simtc.TBranchRegister:
			regReq[rec.F.ID] = rec.F.Body
		case simtc.TBranchRegisterResult:
			if rq := regReq[rec.F.ID]; rq != nil && rec.F.Body.Result == simtc.ResultSuccess {
				grants[rec.F.Body.BranchID] = grant{rec.Seq, rq.LockKey, rq.ResourceID}
			}
		}
	}
	flushes := r.flush[o.flush0:]
	fi := 0
	for _, t := range txns {
		aw := appWrites(t.writes)
		isProxy := false
		for _, e := range t.entries {
			if strings.HasPrefix(e.Class, "select-for-update") || e.Class == "insert-undo" {
				isProxy = true
			}
		}
		if !t.committed {
			continue
		}
		if len(aw) == 0 && t.undoIns == nil {
			continue
		}
		// phase-two transactions of the resource manager (undo / async delete)
		// read or delete undo_log rows: they are not business local transactions
		phaseTwo := false
		for _, e := range t.entries {
			if e.Class == "select-for-update-undo" || e.Class == "delete-undo" || e.Class == "select-undo" {
				phaseTwo = true
			}
		}
		if phaseTwo {
			continue
		}
		if o.xid == "" {
			continue
		}
		_ = isProxy
		// harness / foreign connections never carry undo logs: only judge
		// transactions of hooked (client) connections
		if len(t.entries) > 0 && r.isHarnessConn(t.entries[0].Conn) {
			continue
		}
		// C02(a): business writes and exactly one undo-log insert, same transaction
		undoCount := 0
		for _, e := range t.entries {
			if e.Class == "insert-undo" && e.Err == "" {
				undoCount++
			}
		}
		if len(aw) > 0 && undoCount != 1 {
			r.violate("C02", "atomic-undo", fmt.Sprintf("undo-inserts-%d", undoCount), "episode %d: a local transaction on c%d committed %d business row change(s) with %d undo_log insert(s) in the same transaction", o.idx, t.conn, len(aw), undoCount)
			continue
		}
		if t.undoIns == nil {
			continue
		}
		bid, _ := argInt(t.undoIns.Args[0])
		xid := fmt.Sprint(t.undoIns.Args[1])
		if b, ok := t.undoIns.Args[1].([]byte); ok {
			xid = string(b)
		}
		if xid != o.xid {
			r.violate("C02", "atomic-undo", "undo-wrong-xid", "episode %d: undo_log row carries xid %q, the global transaction is %q", o.idx, xid, o.xid)
		}
		g, granted := grants[bid]
		if !granted {
			r.violate("C02", "register-before-commit", "undo-branch-not-granted", "episode %d: undo_log row carries branch id %d which the coordinator never granted in this episode", o.idx, bid)
			continue
		}
		// C02(b): register granted < undo insert < COMMIT
		if !(g.seq < t.undoIns.Seq && t.undoIns.Seq < t.commitSeq) {
			r.violate("C02", "order", "order-register-undo-commit", "episode %d branch %d: order violated: register granted at seq %d, undo_log insert at %d, COMMIT at %d", o.idx, bid, g.seq, t.undoIns.Seq, t.commitSeq)
		}
		// C03(1): lock keys cover every written row
		keys := parseLockKeyText(g.lockKey)
		for _, wr := range aw {
			tname := wr.Table[strings.LastIndex(wr.Table, ".")+1:]
			tab := w.Srv.Table(atSchema, tname)
			if tab == nil {
				continue
			}
			row := wr.After
			if row == nil {
				row = wr.Before
			}
			want := strings.ToLower(tname) + ":" + pkTextOfRow(tab, row)
			if !keys[want] {
				kind := "update"
				if wr.Before == nil {
					kind = "insert"
				} else if wr.After == nil {
					kind = "delete"
				}
				r.violate("C03", "lock-keys-cover-writes", "missing-lock-key-"+kind+epFeatures(o.ep), "episode %d branch %d: row %s[%s] was written (%s) but the lock keys sent to the coordinator are %q", o.idx, bid, tname, pkTextOfRow(tab, row), kind, g.lockKey)
			}
			// C03(2): same row, same key text over the whole run
			for k := range keys {
				if strings.EqualFold(k, want) {
					id := wr.Table + "|" + wr.Key
					if prev, ok := r.keyText[id]; ok && prev != k {
						r.violate("C03", "lock-key-stable", "lock-key-text-differs", "row %s yielded lock key %q earlier and %q now", id, prev, k)
					}
					r.keyText[id] = k
				}
			}
		}
		// C18 + C08 need the undo log captured at flush time for this branch
		var fl *undo.BranchUndoLog
		for fi < len(flushes) {
			if int64(flushes[fi].BranchID) == bid {
				fl = flushes[fi]
				fi++
				break
			}
			fi++
		}
		if fl == nil {
			continue
		}
		r.checkImages(o, t, fl)
		r.checkEncoding(o, t, fl)
	}
	// C08: every configured compress type must be able to store a branch undo log
	if len(o.ep.DBFaults) == 0 && len(o.ep.TCRules) == 0 {
		for _, sr := range o.stmts {
			if sr.Err != nil && strings.Contains(sr.Err.Error(), "is not compressible") {
				r.violate("C08", "writable", "compressor-refuses-small-log-"+strings.ToLower(r.plan.Cfg.Compress), "episode %d: with compress type %s the branch undo log could not be written at all: %v", o.idx, r.plan.Cfg.Compress, firstLineOf(sr.Err.Error()))
				break
			}
		}
	}
	// C02(d): the pool never holds a connection inside a transaction
	for _, e := range j {
		if (e.Kind == "VALID" || e.Kind == "RESET") && e.InTxn && !r.isHarnessConn(e.Conn) {
			r.violate("C02", "pool-clean", "conn-in-txn-at-pool", "episode %d: connection c%d was %s while inside an open transaction", o.idx, e.Conn, map[string]string{"VALID": "returned to the pool", "RESET": "handed out by the pool"}[e.Kind])
			break
		}
	}
}

func (r *atRun) isHarnessConn(id int) bool { return false }

// checkImages: C18 — recorded images equal the rows each statement changed.
func (r *atRun) checkImages(o *episodeObs, t *localTxn, fl *undo.BranchUndoLog) {
	w := r.w
	// business statements of the transaction that changed rows, in order
	var stmts []simdb.JEntry
	for _, e := range t.entries {
		if (e.Class == "insert" || e.Class == "update" || e.Class == "delete") && e.Err == "" && e.Kind == "EXEC" {
			stmts = append(stmts, e)
		}
	}
	li := 0
	if len(stmts) != len(fl.Logs) {
		// every intercepted statement contributes exactly one item; if the counts
		// differ the items cannot be attributed reliably: only judge the case
		// where rows were changed but no item exists at all
		changed := 0
		for _, st := range stmts {
			if len(st.StmtWrites) > 0 {
				changed++
			}
		}
		if changed > len(fl.Logs) {
			r.violate("C18", "image-per-statement", "missing-undo-item", "episode %d: %d statement(s) changed rows but the branch undo log has %d item(s)", o.idx, changed, len(fl.Logs))
		}
		// a statement the database executed contributes one item (an upsert that
		// both inserts and updates: two); a statement that failed contributes none
		upserts := 0
		for _, st := range stmts {
			if strings.Contains(strings.ToUpper(st.SQL), "ON DUPLICATE KEY") {
				upserts++
			}
		}
		if len(fl.Logs) > len(stmts)+upserts {
			r.violate("C18", "image-per-statement", "undo-item-without-statement"+epFeatures(o.ep), "episode %d: the branch undo log has %d item(s) for %d executed statement(s) (%d of them upserts): an item belongs to no statement that changed anything", o.idx, len(fl.Logs), len(stmts), upserts)
		}
		r.w.Sim.Probe("c18-item-count-differs")
		return
	}
	for _, st := range stmts {
		if len(st.StmtWrites) == 0 {
			// matched-but-unchanged rows may legitimately appear in both images
			li++
			continue
		}
		if li >= len(fl.Logs) {
			r.violate("C18", "image-per-statement", "missing-undo-item", "episode %d: statement %q changed %d row(s) but the branch undo log has no item for it", o.idx, st.SQL, len(st.StmtWrites))
			return
		}
		item := fl.Logs[li]
		li++
		byTable := map[string][]simdb.RowWrite{}
		for _, wr := range st.StmtWrites {
			byTable[wr.Table] = append(byTable[wr.Table], wr)
		}
		for tname, wrs := range byTable {
			short := tname[strings.LastIndex(tname, ".")+1:]
			tab := w.Srv.Table(atSchema, short)
			if tab == nil || !strings.EqualFold(item.TableName, short) {
				r.violate("C18", "image-per-statement", "image-wrong-table", "episode %d: statement %q changed table %s, undo item names %q", o.idx, st.SQL, short, item.TableName)
				continue
			}
			var before, after []simdb.RowWrite
			for _, wr := range wrs {
				if wr.Before != nil {
					before = append(before, wr)
				}
				if wr.After != nil {
					after = append(after, wr)
				}
			}
			extra := r.unchangedExtraRows(tab, item.BeforeImage, item.AfterImage, wrs)
			r.compareImage(o, st.SQL, "before", tab, item.BeforeImage, before, extra, func(wr simdb.RowWrite) simdb.Row { return wr.Before })
			r.compareImage(o, st.SQL, "after", tab, item.AfterImage, after, extra, func(wr simdb.RowWrite) simdb.Row { return wr.After })
		}
	}
}

func imageRows(img *types.RecordImage) int {
	if img == nil {
		return 0
	}
	return len(img.Rows)
}

func imagePK(tab *simdb.Table, row types.RowImage) string {
	cm := map[string]types.ColumnImage{}
	for _, c := range row.Columns {
		cm[strings.ToLower(c.ColumnName)] = c
	}
	var parts []string
	for _, p := range tab.PKNames() {
		parts = append(parts, fmt.Sprint(cm[strings.ToLower(p)].Value))
	}
	return strings.Join(parts, "_")
}

// unchangedExtraRows counts image rows that the statement matched but did not
// change: they appear in both images with identical values and are harmless.
func (r *atRun) unchangedExtraRows(tab *simdb.Table, before, after *types.RecordImage, wrs []simdb.RowWrite) int {
	if before == nil || after == nil {
		return 0
	}
	changed := map[string]bool{}
	for _, wr := range wrs {
		row := wr.After
		if row == nil {
			row = wr.Before
		}
		changed[pkTextOfRow(tab, row)] = true
	}
	afterBy := map[string]types.RowImage{}
	for _, row := range after.Rows {
		afterBy[imagePK(tab, row)] = row
	}
	n := 0
	for _, row := range before.Rows {
		k := imagePK(tab, row)
		if changed[k] {
			continue
		}
		a, ok := afterBy[k]
		if !ok || len(a.Columns) != len(row.Columns) {
			continue
		}
		same := true
		for i := range row.Columns {
			if fmt.Sprintf("%T%v", nilSlice(row.Columns[i].Value), row.Columns[i].Value) != fmt.Sprintf("%T%v", nilSlice(a.Columns[i].Value), a.Columns[i].Value) {
				same = false
			}
		}
		if same {
			n++
		}
	}
	return n
}

func (r *atRun) compareImage(o *episodeObs, sqlText, which string, tab *simdb.Table, img *types.RecordImage, want []simdb.RowWrite, extra int, pick func(simdb.RowWrite) simdb.Row) {
	n := imageRows(img)
	if n != len(want) && n != len(want)+extra {
		r.violate("C18", "image-rows", which+"-image-row-count"+epFeatures(o.ep), "episode %d: statement %q: %s image has %d row(s), the statement changed %d existing row(s) there", o.idx, sqlText, which, n, len(want))
		return
	}
	if n == 0 {
		return
	}
	// index image rows by pk text
	byPK := map[string]types.RowImage{}
	pkNames := tab.PKNames()
	for _, row := range img.Rows {
		cm := map[string]types.ColumnImage{}
		for _, c := range row.Columns {
			cm[strings.ToLower(c.ColumnName)] = c
		}
		var parts []string
		for _, p := range pkNames {
			parts = append(parts, fmt.Sprint(cm[strings.ToLower(p)].Value))
		}
		byPK[strings.Join(parts, "_")] = row
	}
	for _, wr := range want {
		row := pick(wr)
		key := pkTextOfRow(tab, row)
		ir, ok := byPK[key]
		if !ok {
			r.violate("C18", "image-rows", which+"-image-missing-row"+epFeatures(o.ep), "episode %d: statement %q: %s image lacks the changed row %s[%s] (image keys %v)", o.idx, sqlText, which, tab.Name, key, keysOf(byPK))
			continue
		}
		for _, c := range ir.Columns {
			ci, ok := tab.Col(c.ColumnName)
			if !ok {
				r.violate("C18", "image-values", which+"-image-unknown-column", "episode %d: %s image names column %q which table %s does not have", o.idx, which, c.ColumnName, tab.Name)
				continue
			}
			if !imageValueEquals(c.Value, row[ci]) {
				r.violate("C18", "image-values", fmt.Sprintf("%s-image-value-%s", which, tab.Columns()[ci].DataType), "episode %d: statement %q: %s image of %s[%s].%s = %T(%v), the row held %s", o.idx, sqlText, which, tab.Name, key, c.ColumnName, c.Value, c.Value, simdb.FormatVal(row[ci]))
			}
		}
		if !r.plan.Cfg.OnlyUpdateCols && len(ir.Columns) != len(tab.Columns()) {
			r.violate("C18", "image-values", which+"-image-column-count", "episode %d: statement %q: %s image of %s[%s] has %d column(s), the table has %d", o.idx, sqlText, which, tab.Name, key, len(ir.Columns), len(tab.Columns()))
		}
	}
}

func keysOf[T any](m map[string]T) []string {
	var out []string
	for k := range m {
		out = append(out, k)
	}
	sort.Strings(out)
	return out
}

// checkC01 judges a rolled-back episode.
func (r *atRun) checkC01(o *episodeObs, faultFree bool) {
	w := r.w
	g := w.TC.Globals[o.xid]
	if g == nil {
		return
	}
	d := simdb.Diff(appSnapshot(o.s0), appSnapshot(o.final))
	undoLeft := w.UndoRows(atSchema)
	allRolled := true
	for _, b := range g.Branches {
		answered := len(b.P2Answers) > 0
		last := byte(0)
		if answered {
			last = b.P2Answers[len(b.P2Answers)-1]
		}
		if !(answered && last == simtc.BSPhaseTwoRollbacked) {
			allRolled = false
		}
		if answered && last == simtc.BSPhaseTwoRollbacked {
			// (1) truthful: every row this branch wrote is back and its undo log is gone
			for _, u := range undoLeft {
				if u[0] == o.xid && u[1] == fmt.Sprint(b.ID) && u[2] == "0" {
					r.violate("C01", "rollbacked-is-truthful", "undo-log-left", "episode %d: branch %d answered Rollbacked but its undo_log row is still there", o.idx, b.ID)
				}
			}
		}
	}
	if len(g.Branches) > 0 && allRolled && len(d) > 0 {
		cls := "not-restored"
		if len(d) > 0 {
			cls = "not-restored-" + diffKind(d[0]) + epFeatures(o.ep)
		}
		r.violate("C01", "rollbacked-is-truthful", cls, "episode %d: every branch answered Rollbacked but the tables differ from their contents before the global transaction: %s", o.idx, diffSummary(d))
	}
	if faultFree {
		if !o.done {
			r.violate("C01", "restore", "stuck", "episode %d: the global transaction never finished", o.idx)
			return
		}
		if !allRolled {
			var st []string
			for _, b := range g.Branches {
				st = append(st, fmt.Sprintf("%d:%v", b.ID, b.P2Answers))
			}
			r.violate("C01", "restore", "not-rollbacked-fault-free"+r.cfgClass()+epFeatures(o.ep), "episode %d: no fault was injected, but after all retries not every branch answered Rollbacked (answers per branch %v); tables differ: %s", o.idx, st, diffSummary(d))
			return
		}
		if len(d) > 0 {
			return // already reported above
		}
	}
}

// epFeatures names the statement features of an episode that known findings are keyed on.
func epFeatures(ep *ATEpisode) string {
	if ep.blindRow {
		return "-upsert-unidentified-new-row"
	}
	if ep.otherRow {
		return "-upsert-uniq-other-row"
	}
	for _, br := range ep.Branches {
		for _, st := range br.Stmts {

			if st.Kind == "upsert" && strings.Count(st.SQL[:strings.Index(st.SQL+" ON DUPLICATE", " ON DUPLICATE")], "), (") > 0 {
				return "-multirow-upsert"
			}
		}
	}
	return ""
}

// cfgClass adds the configuration features that known findings are keyed on.
func (r *atRun) cfgClass() string {
	s := ""
	if r.plan.Cfg.Compress != "None" && r.plan.Cfg.Compress != "" {
		s += "-compress"
	}
	if r.plan.Cfg.Serializer != "json" {
		s += "-" + r.plan.Cfg.Serializer
	}
	return s
}

func diffKind(d simdb.DiffEntry) string {
	switch {
	case d.Before == nil:
		return "row-added"
	case d.After == nil:
		return "row-lost"
	}
	return "row-changed"
}

func diffSummary(d []simdb.DiffEntry) string {
	var parts []string
	for i, e := range d {
		if i >= 4 {
			parts = append(parts, fmt.Sprintf("... %d more", len(d)-i))
			break
		}
		parts = append(parts, e.String())
	}
	return strings.Join(parts, "; ")
}

// ---- plan generation and engine entry ----------------------------------------------------------------

func defaultGenOpts() GenOpts {
	return GenOpts{Types: []string{"int", "varchar"}, PKKinds: []string{"int"}, WhereForms: []string{"pk"}, Params: true}
}

func genATPlan(seed uint64, tier, mode string) *ATPlan {
	return genATPlanTweaked(seed, tier, mode, nil)
}

// genATPlanTweaked lets an engine steer the generator features (after the
// swarm draw, before tables and statements are generated).
func genATPlanTweaked(seed uint64, tier, mode string, tweak func(g *simkit.Gen, o *GenOpts)) *ATPlan {
	g := simkit.NewGen(seed)
	p := &ATPlan{Mode: mode, Cfg: genATCfg(g, g.Prob(0.5)), Opts: defaultGenOpts()}
	// swarm over generator features
	if g.Prob(0.6) {
		p.Opts.Types = pickSome(g, allTypes, 2)
	}
	if g.Prob(0.5) {
		p.Opts.PKKinds = pickSome(g, []string{"int", "auto", "str", "comp", "date"}, 1)
	}
	p.Opts.Trouble = g.Prob(0.3)
	p.Opts.MultiRow = g.Prob(0.4)
	p.Opts.Upsert = g.Prob(0.3)
	p.Opts.MultiUpsert = g.Prob(0.6)
	p.Opts.ShuffleCols = g.Prob(0.4)
	p.Opts.OrderLimit = g.Prob(0.2)
	if g.Prob(0.5) {
		p.Opts.WhereForms = pickSome(g, []string{"pk", "in", "between", "and", "or", "paren", "nonpk"}, 1)
	}
	p.Opts.Params = g.Prob(0.8)
	p.Opts.DedicatedConn = g.Prob(0.15)
	p.Opts.FreshConn = p.Opts.DedicatedConn && g.Bool()
	p.Opts.UniqueIndex = g.Prob(0.25)
	p.Opts.ContinueAfterError = g.Prob(0.2)
	p.Opts.UpsertOtherRow = p.Opts.UniqueIndex && g.Prob(0.15)
	if p.Opts.UpsertOtherRow {
		// preset: such a run is about multi-row upserts
		p.Opts.Upsert, p.Opts.MultiRow, p.Opts.MultiUpsert = true, true, true
	}
	if g.Prob(0.06) {
		// preset: undo logs dominated by one high-entropy value, under a
		// compressor (a block compressor refuses what it cannot shrink)
		p.Opts.Types = []string{"blob", "int"}
		p.Opts.Trouble, p.Opts.BigBlob = true, true
		p.Cfg.Compress = simkit.Pick(g, []string{"Lz4", "Lz4", "Zstd", "Gzip"})
	}
	if tweak != nil {
		tweak(g, &p.Opts)
	}
	nt := g.Range(1, 2)
	for i := 0; i < nt; i++ {
		p.Tables = append(p.Tables, genTable(g, fmt.Sprintf("t_%c", 'a'+i), p.Opts))
	}
	ne := 3
	if tier == "thorough" {
		ne = 8
	}
	for e := 0; e < ne; e++ {
		sg := newStmtGen(g, p.Opts, p.Tables)
		ep := ATEpisode{Outcome: "rollback"}
		if mode == "commit" || (mode == "mixed" && g.Bool()) {
			ep.Outcome = "commit"
		}
		nb := g.Range(1, 3)
		for b := 0; b < nb; b++ {
			br := ATBranch{Explicit: g.Bool()}
			ns := 1
			if br.Explicit {
				ns = g.Range(1, 4)
			}
			for s := 0; s < ns; s++ {
				br.Stmts = append(br.Stmts, sg.gen())
			}
			ep.Branches = append(ep.Branches, br)
		}
		p.Episodes = append(p.Episodes, ep)
	}
	return p
}

func loadATPlan(seed uint64, planJSON []byte, tier, mode string, res *Result) (*ATPlan, *simkit.Tape) {
	if planJSON != nil {
		plan := &ATPlan{}
		if err := json.Unmarshal(planJSON, plan); err != nil {
			res.InvalidPlan = err.Error()
			return nil, nil
		}
		if len(plan.Tables) == 0 {
			res.InvalidPlan = "no tables"
			return nil, nil
		}
		return plan, simkit.ReplayTape(plan.Tape)
	}
	return genATPlanTweaked(seed, tier, mode, atPlanTweak), simkit.NewTape(seed)
}

// atPlanTweak is set by an engine that steers the shared AT generator.
var atPlanTweak func(g *simkit.Gen, o *GenOpts)

var atComponents = map[string]string{
	"pkg/datasource/sql (proxy driver, connections, transactions, AT executors, undo log manager/builders/executors, async worker, table-meta cache)": "real",
	"pkg/tm, pkg/rm, pkg/remoting/getty, pkg/remoting/processor/client, pkg/protocol/codec":                                                           "real",
	"database/sql pool, arana-db/parser": "real third-party code",
	"MySQL server + go-sql-driver/mysql": "model (simdb: in-memory engine behind database/sql/driver mimicking the driver's value kinds and error types)",
	"coordinator":                        "model (simtc)", "dubbo-getty transport": "stub (simnet)",
}

func runC01(t *testing.T, seed uint64, planJSON []byte, tier string) (res *Result) {
	return runATGeneric(t, "C01", "rollback", seed, planJSON, tier)
}

// C08 / C18 / C03(1,2) are invariants of the same runs: mixed commit and rollback episodes.
func runC08(t *testing.T, seed uint64, planJSON []byte, tier string) (res *Result) {
	return runATGeneric(t, "C08", "mixed", seed, planJSON, tier)
}
func runC18(t *testing.T, seed uint64, planJSON []byte, tier string) (res *Result) {
	return runATGeneric(t, "C18", "mixed", seed, planJSON, tier)
}

func runATGeneric(t *testing.T, prop, mode string, seed uint64, planJSON []byte, tier string) (res *Result) {
	res = &Result{}
	plan, tape := loadATPlan(seed, planJSON, tier, mode, res)
	if plan == nil {
		return res
	}
	if prop == "C01" && planJSON == nil {
		// "any failure to undo is reported as a failure, never as success": some
		// rolled-back episodes meet a database error at one statement of the
		// rollback transaction (the coordinator model delivers the rollback again)
		g := simkit.NewGen(seed ^ 0x5ca1ab1e)
		for i := range plan.Episodes {
			if plan.Episodes[i].Outcome == "rollback" && g.Prob(0.2) {
				cl := simkit.Pick(g, []string{"update", "update", "insert", "delete", "delete-undo", "commit", "select-for-update-undo"})
				plan.Episodes[i].P2Faults = []DBFault{{Class: cl, Nth: g.Range(1, 2), Kind: "error", Num: 1205}}
			}
		}
	}
	res.Harness = runBubbleP(t, plan, func(t *testing.T) {
		r := setupAT(seed, tape, plan, prop, res)
		if r == nil {
			return
		}
		sim := r.w.Sim
		for i := range plan.Episodes {
			ep := &plan.Episodes[i]
			o := r.runEpisode(i, ep)
			if o == nil {
				break
			}
			r.checkPhaseOne(o)
			if ep.Outcome == "rollback" {
				r.checkC01(o, len(ep.DBFaults) == 0 && len(ep.TCRules) == 0 && len(ep.P2Faults) == 0)
			}
			r.recordState(o)
			if len(sim.Violations()) > 0 || !o.done {
				break
			}
		}
		plan.Tape = tape.Rec
		finishResult(res, sim)
	})
	res.Plan, _ = json.Marshal(plan)
	res.Components = atComponents
	return res
}

func (r *atRun) recordState(o *episodeObs) {
	for _, br := range o.ep.Branches {
		for _, st := range br.Stmts {
			sig := fmt.Sprintf("%s|explicit=%v|ser=%s|cmp=%s|dv=%v|ocu=%v|args=%d", st.Kind, br.Explicit, r.plan.Cfg.Serializer, r.plan.Cfg.Compress, r.plan.Cfg.DataValidation, r.plan.Cfg.OnlyUpdateCols, len(st.Args))
			r.w.Sim.State("!" + sig)
		}
	}
	if len(r.res.Samples) < 2 {
		r.res.Samples = append(r.res.Samples, map[string]any{"tables": r.plan.Tables, "episode": o.ep})
	}
}

func init() {
	engines["C01"] = runC01
	engines["C08"] = runC08
	engines["C18"] = runC18
}

func firstLineOf(s string) string {
	if i := strings.IndexByte(s, '\n'); i >= 0 {
		s = s[:i]
	}
	if len(s) > 200 {
		s = s[:200] + "..."
	}
	return s
}
