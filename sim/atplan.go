package sim

import (
	"database/sql/driver"
	"encoding/hex"
	"fmt"
	"sort"
	"strconv"
	"strings"
	"time"

	"verif/simdb"
	"verif/simkit"
)

// ---- typed values that survive JSON ---------------------------------------------------

// Val is a JSON-stable typed value: K = i (int64) u (uint64) f (float64) s
// (string) b (bytes, hex) t (time RFC3339Nano) n (NULL).
type Val struct {
	K string `json:"k"`
	V string `json:"v,omitempty"`
}

func VI(i int64) Val     { return Val{"i", strconv.FormatInt(i, 10)} }
func VF(f float64) Val   { return Val{"f", strconv.FormatFloat(f, 'g', -1, 64)} }
func VS(s string) Val    { return Val{"s", s} }
func VB(b []byte) Val    { return Val{"b", hex.EncodeToString(b)} }
func VT(t time.Time) Val { return Val{"t", t.UTC().Format(time.RFC3339Nano)} }
func VN() Val            { return Val{K: "n"} }

func (v Val) Go() interface{} {
	switch v.K {
	case "i":
		i, _ := strconv.ParseInt(v.V, 10, 64)
		return i
	case "u":
		u, _ := strconv.ParseUint(v.V, 10, 64)
		return u
	case "f":
		f, _ := strconv.ParseFloat(v.V, 64)
		return f
	case "s":
		return v.V
	case "b":
		b, _ := hex.DecodeString(v.V)
		return b
	case "t":
		t, _ := time.Parse(time.RFC3339Nano, v.V)
		return t
	// Go types an application binds besides the plain ones: the driver's
	// argument converter decides what becomes of them
	case "U":
		u, _ := strconv.ParseUint(v.V, 10, 64)
		return appID(u)
	case "W":
		u, _ := strconv.ParseUint(v.V, 10, 64)
		return uint(u)
	case "P":
		u, _ := strconv.ParseUint(v.V, 10, 64)
		return &u
	case "X":
		u, _ := strconv.ParseUint(v.V, 10, 64)
		return appValuer{u}
	case "I":
		i, _ := strconv.ParseInt(v.V, 10, 64)
		return appInt(i)
	}
	return nil
}

type appID uint64
type appInt int32
type appValuer struct{ u uint64 }

func (v appValuer) Value() (driver.Value, error) { return v.u, nil }

// Lit renders the value as a MySQL literal.
func (v Val) Lit() string {
	switch v.K {
	case "i", "u", "f", "U", "W", "P", "X", "I":
		return v.V
	case "s":
		return "'" + strings.NewReplacer("\\", "\\\\", "'", "\\'").Replace(v.V) + "'"
	case "b":
		return "x'" + v.V + "'"
	case "t":
		t, _ := time.Parse(time.RFC3339Nano, v.V)
		s := t.UTC().Format("2006-01-02 15:04:05.000000")
		s = strings.TrimRight(strings.TrimRight(s, "0"), ".")
		return "'" + s + "'"
	}
	return "NULL"
}

func goArgs(vs []Val) []interface{} {
	out := make([]interface{}, len(vs))
	for i, v := range vs {
		out[i] = v.Go()
	}
	return out
}

// ---- schema ------------------------------------------------------------------------------

type ColDef struct {
	Name     string `json:"name"`
	Type     string `json:"type"` // MySQL spelling: int, bigint, varchar(64), decimal(10,2), double, float, datetime, datetime(3), text, blob, tinyint, date
	Nullable bool   `json:"nullable"`
	AutoInc  bool   `json:"auto_inc,omitempty"`
}

type TableDef struct {
	Name string   `json:"name"`
	Cols []ColDef `json:"cols"`
	PK   []string `json:"pk"`
	Rows [][]Val  `json:"rows"`
	// Uniq: a column with a secondary unique index (uk_<column>)
	Uniq string `json:"uniq,omitempty"`
}

type ATStmt struct {
	SQL  string `json:"sql"`
	Args []Val  `json:"args,omitempty"`
	// Kind is informational (insert/update/delete/upsert/select-for-update)
	Kind string `json:"kind,omitempty"`
}

type ATBranch struct {
	Explicit bool     `json:"explicit"`
	Stmts    []ATStmt `json:"stmts"`
}

func (t *TableDef) colIdx(name string) int {
	for i := range t.Cols {
		if t.Cols[i].Name == name {
			return i
		}
	}
	return -1
}

func (t *TableDef) col(name string) *ColDef {
	for i := range t.Cols {
		if t.Cols[i].Name == name {
			return &t.Cols[i]
		}
	}
	return nil
}

func (t *TableDef) isPK(name string) bool {
	for _, p := range t.PK {
		if p == name {
			return true
		}
	}
	return false
}

// install creates the table in the simulated server and loads its rows.
func (t *TableDef) install(srv *simdb.Server, schema string) error {
	var cols []*simdb.Column
	for _, c := range t.Cols {
		var opts []string
		if !c.Nullable {
			opts = append(opts, "not null")
		}
		if c.AutoInc {
			opts = append(opts, "auto_increment")
		}
		cols = append(cols, simdb.NewColumn(c.Name, c.Type, opts...))
	}
	for _, p := range t.PK {
		if t.col(p) == nil {
			return fmt.Errorf("primary key column %s is not a column", p)
		}
	}
	if len(t.PK) == 0 || len(cols) == 0 {
		return fmt.Errorf("table needs columns and a primary key")
	}
	var idx []*simdb.Index
	if t.Uniq != "" {
		if t.col(t.Uniq) == nil {
			return fmt.Errorf("unique column %s is not a column", t.Uniq)
		}
		idx = append(idx, &simdb.Index{Name: "uk_" + t.Uniq, Cols: []string{t.Uniq}, Unique: true})
	}
	srv.CreateTable(schema, t.Name, cols, t.PK, idx)
	return t.load(srv, schema)
}

func (t *TableDef) load(srv *simdb.Server, schema string) error {
	rows := make([][]interface{}, len(t.Rows))
	for i, r := range t.Rows {
		rows[i] = goArgs(r)
	}
	return srv.LoadRows(schema, t.Name, rows)
}

// ---- generators -------------------------------------------------------------------------------

// Feature switches of the generators; known-finding triggers are switched off
// in most runs (DESIGN.md section 6) and aimed at in a fixed fraction.
type GenOpts struct {
	Types      []string `json:"types"`     // column type families allowed
	PKKinds    []string `json:"pk_kinds"`  // int | auto | str | comp
	Trouble    bool     `json:"trouble"`   // classic trouble-maker values (base64-looking strings, 2^53+1, ...)
	MultiRow   bool     `json:"multi_row"` // multi-row VALUES, statements matching many rows
	Upsert     bool     `json:"upsert"`
	WhereForms []string `json:"where_forms"` // pk | in | between | and | or | paren | nonpk
	Params     bool     `json:"params"`      // bound parameters (else literals only)
	OrderLimit bool     `json:"order_limit"`
	// ShuffleCols: INSERT column lists in random order (key not first)
	ShuffleCols bool `json:"shuffle_cols"`
	// MultiUpsert: multi-row INSERT ... ON DUPLICATE KEY UPDATE
	MultiUpsert bool `json:"multi_upsert"`
	// UniqueIndex: tables get a secondary unique index on one int / varchar
	// column; inserts and upserts sometimes collide on it
	UniqueIndex bool `json:"unique_index,omitempty"`
	// UpsertOtherRow: an upsert may name one primary key and meet its duplicate,
	// through the secondary unique index, on a row with another one
	UpsertOtherRow bool `json:"upsert_other_row,omitempty"`
	// ContinueAfterError: inside an explicit transaction the application carries
	// on after a failed statement and commits what did succeed
	ContinueAfterError bool `json:"continue_after_error,omitempty"`
	// FreshConn (with DedicatedConn): the pool keeps no idle connections, so the
	// pinned connection of every episode is a new physical one
	FreshConn bool `json:"fresh_conn,omitempty"`
	// DedicatedConn: the business of an episode runs on one *sql.Conn
	DedicatedConn bool `json:"dedicated_conn,omitempty"`
	// BigBlob: most blob values are 40-60 KB of random bytes
	BigBlob bool `json:"big_blob,omitempty"`
	// CollidingKeys: the first two rows of a table with the composite key
	// (org, code) are (1, "11") and (11, "1"): different keys whose values,
	// written one after the other, read the same (C09-i)
	CollidingKeys bool `json:"colliding_keys,omitempty"`
}

var allTypes = []string{"int", "bigint", "varchar", "decimal", "double", "float", "datetime", "datetime3", "text", "blob", "tinyint", "date", "mediumtext", "longtext", "char", "smallint", "varbinary"}

func pickSome[T any](g *simkit.Gen, xs []T, min int) []T {
	var out []T
	for _, x := range xs {
		if g.Bool() {
			out = append(out, x)
		}
	}
	for len(out) < min {
		out = append(out, simkit.Pick(g, xs))
	}
	return out
}

var strPool = []string{"a", "bob", "carol", "x y", "Zed"}
var strTrouble = []string{"", "test", "dGVzdA==", "123", "{\"a\":1}", "héllo ✓", "O'Brien", "back\\slash", "null", "007", "1.10", "6222020200112345678", "42"}

func genValFor(g *simkit.Gen, c ColDef, o GenOpts) Val {
	if c.Nullable && g.Prob(0.15) {
		return VN()
	}
	base := c.Type
	if i := strings.IndexByte(base, '('); i >= 0 {
		base = base[:i]
	}
	switch base {
	case "int":
		if o.Trouble && g.Prob(0.3) {
			return VI(simkit.Pick(g, []int64{0, -1, 2147483647, -2147483648}))
		}
		return VI(int64(g.Range(1, 500)))
	case "tinyint":
		return VI(int64(g.Range(-128, 127)))
	case "smallint":
		return VI(int64(g.Range(-32768, 32767)))
	case "bigint":
		if o.Trouble && g.Prob(0.4) {
			return VI(simkit.Pick(g, []int64{9007199254740993, 9223372036854775807, -9223372036854775808, 0}))
		}
		return VI(int64(g.Range(1, 100000)))
	case "varchar", "text", "mediumtext", "longtext", "char":
		if o.Trouble && g.Prob(0.5) {
			return VS(simkit.Pick(g, strTrouble))
		}
		return VS(simkit.Pick(g, strPool) + strconv.Itoa(g.Intn(50)))
	case "decimal":
		return VS(fmt.Sprintf("%d.%02d", g.Range(-999, 9999), g.Intn(100)))
	case "double":
		if o.Trouble && g.Prob(0.3) {
			return VF(simkit.Pick(g, []float64{0, -0.0, 0.1, 1e10, -3.5, 1.0 / 3.0}))
		}
		return VF(float64(g.Range(-1000, 1000)) / 4)
	case "float":
		if o.Trouble && g.Prob(0.3) {
			return VF(simkit.Pick(g, []float64{0.1, 1.0 / 3.0, 16777217}))
		}
		return VF(float64(g.Range(-1000, 1000)) / 8)
	case "datetime":
		t := time.Date(2020+g.Intn(5), time.Month(1+g.Intn(12)), 1+g.Intn(28), g.Intn(24), g.Intn(60), g.Intn(60), 0, time.UTC)
		if strings.Contains(c.Type, "(3)") {
			t = t.Add(time.Duration(g.Intn(1000)) * time.Millisecond)
		}
		return VT(t)
	case "date":
		return VT(time.Date(2020+g.Intn(5), time.Month(1+g.Intn(12)), 1+g.Intn(28), 0, 0, 0, 0, time.UTC))
	case "blob", "varbinary":
		if g.Prob(0.2) {
			return VB([]byte{})
		}
		n := g.Range(1, 6)
		if base == "blob" && o.Trouble && (g.Prob(0.3) || o.BigBlob) {
			// high-entropy payload: the serialized undo log does not shrink under
			// a block compressor (the compressor may refuse it)
			n = g.Range(600, 2400)
			if g.Prob(0.4) || (o.BigBlob && g.Prob(0.6)) {
				n = g.Range(40000, 60000) // LZ4 gives up on a log this dominates
			}
		}
		b := make([]byte, n)
		for i := range b {
			b[i] = byte(g.Intn(256))
		}
		return VB(b)
	}
	return VS("v")
}

func colType(t string) string {
	switch t {
	case "varchar":
		return "varchar(64)"
	case "decimal":
		return "decimal(10,2)"
	case "datetime3":
		return "datetime(3)"
	case "char":
		return "char(32)"
	case "varbinary":
		return "varbinary(32)"
	}
	return t
}

func genTable(g *simkit.Gen, name string, o GenOpts) TableDef {
	t := TableDef{Name: name}
	switch simkit.Pick(g, o.PKKinds) {
	case "auto":
		t.Cols = append(t.Cols, ColDef{Name: "id", Type: "bigint", AutoInc: true})
		t.PK = []string{"id"}
	case "str":
		t.Cols = append(t.Cols, ColDef{Name: "code", Type: "varchar(32)"})
		t.PK = []string{"code"}
	case "comp":
		t.Cols = append(t.Cols, ColDef{Name: "org", Type: "int"}, ColDef{Name: "code", Type: "varchar(16)"})
		t.PK = []string{"org", "code"}
	case "ubig":
		// an unsigned 64-bit key whose values need the top bit (snowflake-style ids)
		t.Cols = append(t.Cols, ColDef{Name: "id", Type: "bigint unsigned"})
		t.PK = []string{"id"}
	case "dec":
		// a DECIMAL key with values of a dozen digits (order numbers with a date
		// prefix): read back as floating-point numbers by the client
		t.Cols = append(t.Cols, ColDef{Name: "id", Type: "decimal(16,0)"})
		t.PK = []string{"id"}
	case "date":
		// a day as part of the key (one row per organisation and day)
		t.Cols = append(t.Cols, ColDef{Name: "org", Type: "int"}, ColDef{Name: "day", Type: "date"})
		t.PK = []string{"org", "day"}
	default:
		t.Cols = append(t.Cols, ColDef{Name: "id", Type: "int"})
		t.PK = []string{"id"}
	}
	nc := g.Range(2, 5)
	for i := 0; i < nc; i++ {
		ty := simkit.Pick(g, o.Types)
		t.Cols = append(t.Cols, ColDef{Name: fmt.Sprintf("c%d_%s", i, strings.TrimSuffix(ty, "3")), Type: colType(ty), Nullable: g.Prob(0.4)})
	}
	if o.UniqueIndex {
		for _, c := range t.Cols {
			if !t.isPK(c.Name) && (c.Type == "int" || c.Type == "bigint" || strings.HasPrefix(c.Type, "varchar")) {
				t.Uniq = c.Name
				break
			}
		}
	}
	nr := g.Range(0, 6)
	seen := map[string]bool{}
	seenU := map[string]bool{}
	for i := 0; i < nr; i++ {
		row := make([]Val, len(t.Cols))
		for j, c := range t.Cols {
			if t.isPK(c.Name) {
				row[j] = genPK(g, c, i)
			} else {
				row[j] = genValFor(g, c, o)
			}
		}
		k := pkText(&t, row)
		if seen[strings.ToLower(k)] {
			continue
		}
		if t.Uniq != "" {
			u := row[t.colIdx(t.Uniq)]
			if u.K != "n" {
				if seenU[strings.ToLower(u.V)] {
					continue
				}
				seenU[strings.ToLower(u.V)] = true
			}
		}
		seen[strings.ToLower(k)] = true
		t.Rows = append(t.Rows, row)
	}
	if o.CollidingKeys && len(t.PK) == 2 && t.PK[1] == "code" && len(t.Rows) >= 2 {
		// the other rows' codes begin with a letter: no clash with these two
		oi, ci := t.colIdx("org"), t.colIdx("code")
		t.Rows[0][oi], t.Rows[0][ci] = VI(1), VS("11")
		t.Rows[1][oi], t.Rows[1][ci] = VI(11), VS("1")
	}
	return t
}

// primary-key values: small integers / short words without the separators the
// lock-key text uses (: , ; _) and without case-only differences
func genPK(g *simkit.Gen, c ColDef, i int) Val {
	if strings.HasPrefix(c.Type, "varchar") {
		return VS(simkit.Pick(g, []string{"k", "p", "q", "z"}) + strconv.Itoa(g.Intn(40)))
	}
	if c.Type == "bigint unsigned" {
		return Val{"u", strconv.FormatUint(uint64(1)<<63+uint64(g.Range(1, 40)), 10)}
	}
	if c.Type == "date" {
		return VT(time.Date(2024, time.Month(1+g.Intn(3)), 1+g.Intn(9), 0, 0, 0, 0, time.UTC))
	}
	if strings.HasPrefix(c.Type, "decimal(16") {
		return VI(2024010100000 + int64(g.Range(1, 40)))
	}
	return VI(int64(g.Range(1, 40)))
}

func pkText(t *TableDef, row []Val) string {
	var parts []string
	for j, c := range t.Cols {
		if t.isPK(c.Name) {
			parts = append(parts, row[j].V)
		}
	}
	return strings.Join(parts, "_")
}

type stmtGen struct {
	g      *simkit.Gen
	o      GenOpts
	tables []TableDef
	// model of the rows per table while generating (pk text -> present)
	live []map[string][]Val
	next int
}

func newStmtGen(g *simkit.Gen, o GenOpts, tables []TableDef) *stmtGen {
	s := &stmtGen{g: g, o: o, tables: tables}
	for i := range tables {
		m := map[string][]Val{}
		for _, r := range tables[i].Rows {
			m[pkText(&tables[i], r)] = r
		}
		s.live = append(s.live, m)
	}
	return s
}

// value placement: literal or bound parameter
func (s *stmtGen) place(v Val, args *[]Val) string {
	if s.o.Params && v.K != "n" && s.g.Prob(0.6) {
		*args = append(*args, v)
		return "?"
	}
	return v.Lit()
}

func (s *stmtGen) somePK(ti int) ([]Val, bool) {
	t := &s.tables[ti]
	var keys []string
	for k := range s.live[ti] {
		keys = append(keys, k)
	}
	if len(keys) == 0 {
		return nil, false
	}
	sortStrings(keys)
	row := s.live[ti][simkit.Pick(s.g, keys)]
	var pk []Val
	for j, c := range t.Cols {
		if t.isPK(c.Name) {
			pk = append(pk, row[j])
		}
	}
	return pk, true
}

func sortStrings(a []string) {
	for i := 1; i < len(a); i++ {
		for j := i; j > 0 && a[j] < a[j-1]; j-- {
			a[j], a[j-1] = a[j-1], a[j]
		}
	}
}

func (s *stmtGen) wherePK(ti int, pk []Val, args *[]Val) string {
	t := &s.tables[ti]
	var parts []string
	for i, name := range t.PK {
		parts = append(parts, fmt.Sprintf("%s = %s", name, s.place(pk[i], args)))
	}
	return strings.Join(parts, " AND ")
}

func (s *stmtGen) where(ti int, args *[]Val) string {
	t := &s.tables[ti]
	form := simkit.Pick(s.g, s.o.WhereForms)
	pk, ok := s.somePK(ti)
	if !ok {
		// empty table: any pk
		pk = nil
		for _, name := range t.PK {
			pk = append(pk, genPK(s.g, *t.col(name), 0))
		}
	}
	single := len(t.PK) == 1
	switch {
	case form == "in" && single:
		var items []string
		n := s.g.Range(1, 3)
		for i := 0; i < n; i++ {
			p, ok := s.somePK(ti)
			if !ok {
				p = pk
			}
			items = append(items, s.place(p[0], args))
		}
		return fmt.Sprintf("%s IN (%s)", t.PK[0], strings.Join(items, ", "))
	case form == "between" && single && !strings.HasPrefix(t.col(t.PK[0]).Type, "varchar"):
		lo, _ := strconv.ParseInt(pk[0].V, 10, 64)
		return fmt.Sprintf("%s BETWEEN %s AND %s", t.PK[0], s.place(VI(lo-2), args), s.place(VI(lo+int64(s.g.Range(0, 5))), args))
	case form == "or" && single:
		p2, ok := s.somePK(ti)
		if !ok {
			p2 = pk
		}
		return fmt.Sprintf("%s = %s OR %s = %s", t.PK[0], s.place(pk[0], args), t.PK[0], s.place(p2[0], args))
	case form == "paren":
		return "(" + s.wherePK(ti, pk, args) + ")"
	case form == "nonpk":
		for j, c := range t.Cols {
			if !t.isPK(c.Name) && (strings.HasPrefix(c.Type, "int") || strings.HasPrefix(c.Type, "varchar")) {
				var keys []string
				for k := range s.live[ti] {
					keys = append(keys, k)
				}
				sortStrings(keys) // map order must not leak into the plan
				for _, k := range keys {
					r := s.live[ti][k]
					if r[j].K != "n" {
						return fmt.Sprintf("%s = %s", c.Name, s.place(r[j], args))
					}
				}
			}
		}
	case form == "and":
		return s.wherePK(ti, pk, args) + " AND 1 = 1"
	}
	return s.wherePK(ti, pk, args)
}

func (s *stmtGen) freshPK(ti int) []Val {
	t := &s.tables[ti]
	for tries := 0; tries < 50; tries++ {
		var pk []Val
		for _, name := range t.PK {
			pk = append(pk, genPK(s.g, *t.col(name), 0))
		}
		k := ""
		for i, p := range pk {
			if i > 0 {
				k += "_"
			}
			k += p.V
		}
		if _, ok := s.live[ti][k]; !ok {
			dup := false
			for e := range s.live[ti] {
				if strings.EqualFold(e, k) {
					dup = true
				}
			}
			if !dup {
				return pk
			}
		}
	}
	return nil
}

// gen produces one DML statement and updates the generator's row model
// approximately (exact effects are judged by the database model, not here).
func (s *stmtGen) gen() ATStmt {
	ti := s.g.Intn(len(s.tables))
	t := &s.tables[ti]
	kinds := []string{"insert", "update", "update", "delete"}
	if s.o.Upsert {
		kinds = append(kinds, "upsert")
	}
	kind := simkit.Pick(s.g, kinds)
	var args []Val
	switch kind {
	case "insert", "upsert":
		nrows := 1
		if s.o.MultiRow && s.g.Prob(0.4) && (kind != "upsert" || s.o.MultiUpsert) {
			nrows = s.g.Range(2, 3)
		}
		auto := t.Cols[0].AutoInc
		var names []string
		for _, c := range t.Cols {
			if c.AutoInc && s.g.Bool() {
				continue
			}
			names = append(names, c.Name)
		}
		if !auto || len(names) == len(t.Cols) {
			names = nil
			for _, c := range t.Cols {
				names = append(names, c.Name)
			}
		}
		if s.o.ShuffleCols && len(names) > 1 {
			for i := len(names) - 1; i > 0; i-- {
				j := s.g.Intn(i + 1)
				names[i], names[j] = names[j], names[i]
			}
		}
		var lists []string
		otherRow := false
		pkListed := true
		for _, pkn := range t.PK {
			listed := false
			for _, n := range names {
				if n == pkn {
					listed = true
				}
			}
			if !listed {
				pkListed = false
			}
		}
		for r := 0; r < nrows; r++ {
			var pk []Val
			if kind == "upsert" && s.g.Bool() {
				pk, _ = s.somePK(ti)
			}
			if pk == nil {
				pk = s.freshPK(ti)
			}
			if pk == nil {
				continue
			}
			row := make([]Val, len(t.Cols))
			pi := 0
			var vals []string
			for j, c := range t.Cols {
				if t.isPK(c.Name) {
					row[j] = pk[pi]
					pi++
				} else {
					row[j] = genValFor(s.g, c, s.o)
					if t.Uniq == c.Name {
						switch {
						case c.Nullable && r == 0 && nrows > 1 && s.g.Prob(0.4) && (kind != "upsert" || s.o.UpsertOtherRow || pkListed):
							// (an upsert row with NULL here and a generated key is a known
							// finding: rarely enabled)
							row[j] = VN()
						case s.g.Prob(0.4):
							// the value another row holds (duplicate key through the index)
							var ks []string
							for k := range s.live[ti] {
								ks = append(ks, k)
							}
							sort.Strings(ks)
							for _, k := range ks {
								if other := s.live[ti][k]; other[j].K != "n" {
									row[j] = other[j]
									if kind == "upsert" {
										if s.o.UpsertOtherRow {
											// the duplicate is met on a row whose primary key is not the
											// one the statement names (known finding, rarely enabled)
											otherRow = true
										} else {
											// the statement names the row it collides with
											for jj, cc := range t.Cols {
												if t.isPK(cc.Name) {
													row[jj] = other[jj]
												}
											}
										}
									}
									break
								}
							}
						}
					}
				}
			}
			for _, n := range names {
				for j, c := range t.Cols {
					if c.Name == n {
						vals = append(vals, s.place(row[j], &args))
					}
				}
			}
			lists = append(lists, "("+strings.Join(vals, ", ")+")")
			s.live[ti][pkText(t, row)] = row
		}
		if len(lists) == 0 {
			return s.gen()
		}
		sql := fmt.Sprintf("INSERT INTO %s (%s) VALUES %s", t.Name, strings.Join(names, ", "), strings.Join(lists, ", "))
		if kind == "upsert" {
			var sets []string
			for _, c := range t.Cols {
				if !t.isPK(c.Name) && s.g.Prob(0.6) {
					if s.g.Bool() {
						sets = append(sets, fmt.Sprintf("%s = VALUES(%s)", c.Name, c.Name))
					} else {
						sets = append(sets, fmt.Sprintf("%s = %s", c.Name, s.place(genValFor(s.g, c, s.o), &args)))
					}
				}
			}
			if len(sets) == 0 {
				c := t.Cols[len(t.Cols)-1]
				sets = append(sets, fmt.Sprintf("%s = VALUES(%s)", c.Name, c.Name))
			}
			sql += " ON DUPLICATE KEY UPDATE " + strings.Join(sets, ", ")
		}
		if otherRow {
			return ATStmt{SQL: sql, Args: args, Kind: "upsert-uniq-other-row"}
		}
		return ATStmt{SQL: sql, Args: args, Kind: kind}
	case "update":
		var sets []string
		for j, c := range t.Cols {
			if !t.isPK(c.Name) && s.g.Prob(0.5) {
				v := genValFor(s.g, c, s.o)
				if t.Uniq == c.Name && s.g.Prob(0.3) {
					// the value another row holds: the statement fails on the unique index
					var ks []string
					for k := range s.live[ti] {
						ks = append(ks, k)
					}
					sort.Strings(ks)
					for _, k := range ks {
						if other := s.live[ti][k]; other[j].K != "n" {
							v = other[j]
							break
						}
					}
				}
				sets = append(sets, fmt.Sprintf("%s = %s", c.Name, s.place(v, &args)))
			}
		}
		if len(sets) == 0 {
			c := t.Cols[len(t.Cols)-1]
			sets = append(sets, fmt.Sprintf("%s = %s", c.Name, s.place(genValFor(s.g, c, s.o), &args)))
		}
		sql := fmt.Sprintf("UPDATE %s SET %s WHERE %s", t.Name, strings.Join(sets, ", "), s.where(ti, &args))
		if s.o.OrderLimit && s.g.Prob(0.2) {
			sql += fmt.Sprintf(" ORDER BY %s LIMIT %d", t.PK[0], s.g.Range(1, 3))
		}
		return ATStmt{SQL: sql, Args: args, Kind: kind}
	default:
		sql := fmt.Sprintf("DELETE FROM %s WHERE %s", t.Name, s.where(ti, &args))
		if s.o.OrderLimit && s.g.Prob(0.2) {
			sql += fmt.Sprintf(" ORDER BY %s LIMIT %d", t.PK[0], s.g.Range(1, 3))
		}
		return ATStmt{SQL: sql, Args: args, Kind: "delete"}
	}
}
