package sim

import (
	"encoding/json"
	"fmt"
	"strings"
	"testing"

	"verif/simdb"
	"verif/simkit"
	"verif/simtc"
)

// C02 — AT phase one is atomic and ordered against the coordinator.
// Fault enumeration: a generated committing program is first executed
// fault-free (probe), the probe tells how many statements of each class the
// proxy issued and how many coordinator exchanges happened, then the same
// program is executed once per single-fault position.

func c02Faults(counts map[string]int, regs, reports int, tier string) []ATEpisode {
	var out []ATEpisode
	add := func(desc string, db []DBFault, tc []simtc.Rule) {
		out = append(out, ATEpisode{Fault: desc, DBFaults: db, TCRules: tc})
	}
	classes := []string{"select-for-update", "insert", "update", "delete", "select", "insert-undo", "commit", "begin"}
	for _, cl := range classes {
		n := counts[cl]
		for k := 1; k <= n; k++ {
			add(fmt.Sprintf("db-error:%s#%d", cl, k), []DBFault{{Class: cl, Nth: k, Kind: "error", Num: 1213}}, nil)
			if tier == "thorough" || k == 1 {
				add(fmt.Sprintf("db-badconn:%s#%d", cl, k), []DBFault{{Class: cl, Nth: k, Kind: "badconn"}}, nil)
			}
			if cl == "commit" {
				add(fmt.Sprintf("db-applied-then-lost:%s#%d", cl, k), []DBFault{{Class: cl, Nth: k, Kind: "invalidconn"}}, nil)
			}
		}
	}
	for k := 1; k <= regs; k++ {
		for _, act := range []string{simtc.ActFail, simtc.ActFailNoCode, simtc.ActConflict, simtc.ActSilent, simtc.ActClose} {
			if act == simtc.ActClose && tier != "thorough" && k > 1 {
				continue
			}
			add(fmt.Sprintf("register-%s#%d", act, k), nil, []simtc.Rule{{Code: simtc.TBranchRegister, Nth: k, Action: act}})
		}
	}
	if reports > 0 {
		for _, nfail := range []int{1, 2, 4, 5} {
			var rules []simtc.Rule
			for k := 1; k <= nfail; k++ {
				// the failure reports (a branch of the program that committed earlier
				// has reported phase-one-done before)
				rules = append(rules, simtc.Rule{Code: simtc.TBranchReport, Nth: k, Action: simtc.ActFail, Status: simtc.BSPhaseOneFailed})
			}
			if nfail <= 2 {
				// the same with reports that get no answer at all (each attempt ends
				// with the RPC timeout; the next one is due all the same)
				var silent []simtc.Rule
				for k := 1; k <= nfail; k++ {
					silent = append(silent, simtc.Rule{Code: simtc.TBranchReport, Nth: k, Action: simtc.ActSilent, Status: simtc.BSPhaseOneFailed})
				}
				add(fmt.Sprintf("commit-error+report-unanswered-x%d", nfail), []DBFault{{Class: "commit", Nth: 1, Kind: "error", Num: 1213}}, silent)
			}
			// combined with a failing COMMIT so that a PhaseOne_Failed report is due
			add(fmt.Sprintf("commit-error+report-fails-x%d", nfail), []DBFault{{Class: "commit", Nth: 1, Kind: "error", Num: 1213}}, rules)
			// the same with the undo-log insert failing: here the local transaction
			// is still open when the report is due, so a client that forgets the
			// local rollback hands the connection back inside it
			if counts["insert-undo"] > 0 && (nfail == 1 || nfail == 5) {
				add(fmt.Sprintf("undo-insert-error+report-fails-x%d", nfail), []DBFault{{Class: "insert-undo", Nth: 1, Kind: "error", Num: 1406}}, rules)
			}
		}
	}
	return out
}

func runC02(t *testing.T, seed uint64, planJSON []byte, tier string) (res *Result) {
	res = &Result{}
	plan, tape := loadATPlan(seed, planJSON, tier, "commit", res)
	if plan == nil {
		return res
	}
	replaying := planJSON != nil
	if !replaying {
		// one template program per run
		plan.Episodes = plan.Episodes[:1]
		plan.Episodes[0].Outcome = "commit"
		plan.Episodes[0].StopOnErr = true
		// (an application that commits after a statement error is outside the
		// episodes of this engine: with injected faults the failed statement may
		// already have been applied when its image query fails)
		plan.Opts.ContinueAfterError = false
		plan.Episodes[0].RetryOnce = plan.Opts.DedicatedConn
	}
	res.Harness = runBubbleP(t, plan, func(t *testing.T) {
		r := setupAT(seed, tape, plan, "C02", res)
		if r == nil {
			return
		}
		sim := r.w.Sim
		if len(plan.Episodes) == 0 {
			res.InvalidPlan = "no episode"
			return
		}
		// probe
		tmpl := plan.Episodes[0]
		o := r.runEpisode(0, &plan.Episodes[0])
		if o == nil {
			return
		}
		r.checkPhaseOne(o)
		r.checkC02Episode(o)
		r.recordState(o)
		if len(sim.Violations()) == 0 && o.done && !replaying {
			counts := r.w.Hook.Counts()
			regs, reports := 0, 0
			for _, rec := range r.w.TC.Log[o.logStart:] {
				if rec.In && rec.F.Body != nil {
					switch rec.F.Body.Code {
					case simtc.TBranchRegister:
						regs++
					case simtc.TBranchReport:
						reports++
					}
				}
			}
			for _, fe := range c02Faults(counts, regs, reports, tier) {
				ep := tmpl
				ep.Fault, ep.DBFaults, ep.TCRules = fe.Fault, fe.DBFaults, fe.TCRules
				plan.Episodes = append(plan.Episodes, ep)
			}
		}
		for i := 1; i < len(plan.Episodes) && len(sim.Violations()) == 0; i++ {
			ep := &plan.Episodes[i]
			o := r.runEpisode(i, ep)
			if o == nil {
				break
			}
			r.checkPhaseOne(o)
			r.checkC02Episode(o)
			sim.State("!fault=" + strings.SplitN(ep.Fault, "#", 2)[0])
			if !o.done {
				break
			}
		}
		plan.Tape = tape.Rec
		finishResult(res, sim)
	})
	res.Plan, _ = json.Marshal(plan)
	res.Components = atComponents
	return res
}

// checkC02Episode judges clause (c): after any injected failure the caller
// got an error, nothing of the failed local transaction is committed, and a
// registered branch was reported PhaseOne_Failed.
func (r *atRun) checkC02Episode(o *episodeObs) {
	w := r.w
	ep := o.ep
	cls := strings.SplitN(ep.Fault, "#", 2)[0]
	if cls == "" {
		cls = "fault-free"
	}
	cls += epFeatures(ep)
	if !o.done {
		r.violate("C02", "termination", "stuck-"+cls, "episode %d (%s): the global transaction never finished", o.idx, ep.Fault)
		return
	}
	fired := 0
	for k, n := range w.Sim.Faults {
		if strings.HasPrefix(k, "db-") || strings.HasPrefix(k, "tc-") {
			fired += n
		}
	}
	anyErr := false
	for _, sr := range o.stmts {
		if sr.Err != nil {
			anyErr = true
		}
	}
	j := w.Srv.JournalFrom(o.jstart)
	injected := false
	applied := false
	retried := false
	for i, e := range j {
		if strings.Contains(e.Err, "injected") {
			injected = true
			if strings.Contains(e.Err, "after the statement was applied") {
				applied = true
			}
			// driver.ErrBadConn outside a transaction: database/sql transparently
			// retries the operation on another connection - no failure for the caller
			if strings.Contains(e.Err, "statement not applied") && !e.InTxn {
				for _, e2 := range j[i+1:] {
					if e2.SQL == e.SQL && e2.Conn != e.Conn && e2.Err == "" {
						retried = true
					}
				}
			}
		}
	}
	if retried {
		w.Sim.Probe("c02-badconn-retried-by-database-sql")
		return
	}
	// a registration rule counts when it actually fired in this episode (a
	// shrunk program may never reach the k-th registration)
	tcFault := false
	for _, rule := range ep.TCRules {
		if rule.Code == simtc.TBranchRegister && w.Sim.Faults["tc-"+rule.Action] > o.faults0["tc-"+rule.Action] {
			tcFault = true
		}
	}
	if ep.Fault == "" {
		// fault-free: must commit everything, caller sees no error
		if anyErr || o.gerr != nil {
			// statements the proxy legitimately rejects are judged by C18; here only
			// note the fact (no fault => no injected failure => nothing to demand)
			w.Sim.Probe("c02-fault-free-error")
		}
		return
	}
	if !injected && !tcFault {
		// the fault position was not reached in this execution (e.g. fewer
		// statements because of an earlier rejection): nothing to judge
		w.Sim.Probe("c02-fault-not-reached")
		return
	}
	// (c1) the caller got an error
	if !anyErr && o.gerr == nil {
		// a report failure alone does not have to fail the caller
		if len(ep.DBFaults) > 0 || tcFault {
			r.violate("C02", "error-surfaces", "no-error-"+cls, "episode %d (%s): a failure was injected in phase one but no statement, commit or the global transaction returned an error", o.idx, ep.Fault)
		}
	}
	// (c2) nothing of the failed local transaction is committed: because the
	// business stops at the first error and the global transaction is then
	// rolled back fault-free, the application tables must equal S0 at the end,
	// unless the COMMIT was applied and only its reply was lost (then the undo
	// log was committed with it and the rollback must have restored the rows)
	d := simdb.Diff(appSnapshot(o.s0), appSnapshot(o.final))
	// when the coordinator could not be reached any more (the injected fault cost
	// the session) the global rollback was never carried out: the rows of local
	// transactions that HAD committed before are still there, legitimately; only
	// the rows of the failed local transaction must not be
	if g := w.TC.Globals[o.xid]; g != nil && g.Status != simtc.GSRollbacked && g.Status != simtc.GSCommitted {
		committedKeys := map[string]bool{}
		for _, t := range splitLocalTxns(j) {
			if t.committed && t.undoIns != nil {
				for _, wr := range appWrites(t.writes) {
					committedKeys[wr.Table+"|"+wr.Key] = true
				}
			}
		}
		var rest []simdb.DiffEntry
		for _, e := range d {
			if !committedKeys[e.Table+"|"+e.Key] {
				rest = append(rest, e)
			}
		}
		if len(rest) != len(d) {
			w.Sim.Probe("c02-global-rollback-not-delivered")
		}
		d = rest
	}
	if applied {
		// the COMMIT took effect but its reply was lost: no client can both report
		// the failure it saw and have "nothing committed"; the clause does not apply
		w.Sim.Probe("c02-commit-outcome-ambiguous")
	} else if len(d) > 0 {
		r.violate("C02", "nothing-committed", "residue-"+cls, "episode %d (%s): after the failed phase one and the rollback of the global transaction the tables differ from their initial contents: %s", o.idx, ep.Fault, diffSummary(d))
	}
	// (c3) a registered branch whose local transaction failed is reported PhaseOne_Failed
	granted := map[int64]bool{}
	reported := map[int64][]byte{}
	regReq := map[int32]bool{}
	reportOK := map[int64]bool{}
	repReq := map[int32]*simtc.Msg{}
	for _, rec := range w.TC.Log[o.logStart:] {
		if rec.F.Body == nil {
			continue
		}
		switch rec.F.Body.Code {
		case simtc.TBranchRegister:
			regReq[rec.F.ID] = true
		case simtc.TBranchRegisterResult:
			if regReq[rec.F.ID] && rec.F.Body.Result == simtc.ResultSuccess {
				granted[rec.F.Body.BranchID] = true
			}
		case simtc.TBranchReport:
			reported[rec.F.Body.BranchID] = append(reported[rec.F.Body.BranchID], rec.F.Body.Status)
			repReq[rec.F.ID] = rec.F.Body
		case simtc.TBranchReportResult:
			if rq := repReq[rec.F.ID]; rq != nil && rec.F.Body.Result == simtc.ResultSuccess {
				reportOK[rq.BranchID] = true
			}
		}
	}
	// which granted branches committed locally?
	committed := map[int64]bool{}
	ltxns := splitLocalTxns(j)
	for _, t := range ltxns {
		if t.committed && t.undoIns != nil {
			if bid, ok := argInt(t.undoIns.Args[0]); ok {
				committed[bid] = true
			}
		}
	}
	// a branch whose statements changed no row writes no undo log: it committed
	// when the local transaction during which it was registered committed
	for bid := range granted {
		b := w.TC.FindBranch(bid)
		if b == nil || committed[bid] {
			continue
		}
		for _, t := range ltxns {
			if t.committed && len(t.entries) > 0 && t.entries[0].Seq <= b.RegSeq && b.RegSeq <= t.commitSeq {
				committed[bid] = true
			}
		}
	}
	nfailReports := 0
	for _, rule := range ep.TCRules {
		if rule.Code == simtc.TBranchReport {
			nfailReports++
		}
	}
	for bid := range granted {
		if committed[bid] {
			continue
		}
		sts := reported[bid]
		hasFailed := false
		for _, s := range sts {
			if s == simtc.BSPhaseOneFailed {
				hasFailed = true
			}
			if s == simtc.BSPhaseOneDone {
				r.violate("C02", "report-truthful", "done-reported-for-failed-"+cls, "episode %d (%s): branch %d did not commit locally but was reported PhaseOne_Done", o.idx, ep.Fault, bid)
			}
		}
		if !hasFailed {
			r.violate("C02", "report-failed", "no-failed-report-"+cls, "episode %d (%s): branch %d was registered, its local transaction did not commit, but no PhaseOne_Failed report reached the coordinator (reports: %v)", o.idx, ep.Fault, bid, sts)
		} else if nfailReports < 5 && !reportOK[bid] {
			r.violate("C02", "report-failed", "failed-report-not-retried-"+cls, "episode %d (%s): %d report attempt(s) were refused, the client sent %d and none succeeded", o.idx, ep.Fault, nfailReports, len(sts))
		}
	}
}

func init() { engines["C02"] = runC02 }

var _ = simkit.NewGen
