package sim

import (
	"encoding/json"
	"fmt"
	"reflect"
	"sort"
	"testing"

	getty "github.com/apache/dubbo-getty"

	"seata.apache.org/seata-go/pkg/protocol/codec"
	"seata.apache.org/seata-go/pkg/protocol/message"
	sgetty "seata.apache.org/seata-go/pkg/remoting/getty"
	"seata.apache.org/seata-go/pkg/util/log"

	"verif/simkit"
	"verif/simnet"
	"verif/simtc"
)

// C13 — the frame reader survives any fragmentation of the byte stream.
// Frames come from simtc's independent encoder; the bytes are cut by the
// simulated link and pushed through the replica of getty's receive loop, so
// Read is called exactly as the transport calls it.

type C13Frame struct {
	Type  byte        `json:"type"`
	ID    int32       `json:"id"`
	Head  [][2]string `json:"head,omitempty"`
	Body  *simtc.Msg  `json:"body,omitempty"`
	Via   string      `json:"via,omitempty"` // "" = simtc encoder, "client" = the client's own Write (round trip)
	Bytes []byte      `json:"-"`
}

type C13Episode struct {
	Frames  []C13Frame `json:"frames"`
	Garbage []byte     `json:"garbage,omitempty"` // appended after the frames (non-frame bytes)
	// GarbageKind "bad-lengths": the garbage has a frame header's magic and
	// version and impossible lengths, so no message may come out of it
	GarbageKind string `json:"garbage_kind,omitempty"`
	Cuts        []int  `json:"cuts,omitempty"` // chunk sizes; empty + Exhaust => all cut positions
	Exhaust     int    `json:"exhaust"`        // 0 none, 1 every single cut, 2 every pair of cuts
}

type C13Plan struct {
	Episodes []C13Episode `json:"episodes"`
}

type nullSink struct{}

func (nullSink) OnFrame(int, *simtc.Frame) {}
func (nullSink) SessionOpened(int)         {}

type recListener struct{}

func (recListener) OnOpen(getty.Session) error           { return nil }
func (recListener) OnClose(getty.Session)                {}
func (recListener) OnError(getty.Session, error)         {}
func (recListener) OnCron(getty.Session)                 {}
func (recListener) OnMessage(getty.Session, interface{}) {}

var c13Strings = []string{"", "a", "xid", "10.0.0.7:8091:1001", "héllo wörld ✓", "k=v;k2=v2", "0123456789abcdef0123456789abcdef"}

func genC13Msg(g *simkit.Gen) *simtc.Msg {
	str := func() string { return simkit.Pick(g, c13Strings) }
	switch g.Intn(8) {
	case 0:
		m := &simtc.Msg{Code: simtc.TGlobalBeginResult, Result: byte(g.Intn(2)), ExCode: byte(g.Intn(5)), Xid: str(), Extra: str()}
		if m.Result == simtc.ResultFailed {
			m.Message = str()
		}
		return m
	case 1:
		m := &simtc.Msg{Code: simkit.Pick(g, []int{simtc.TGlobalCommitResult, simtc.TGlobalRollbackResult}), Result: byte(g.Intn(2)), ExCode: byte(g.Intn(5)), GlobalStatus: byte(g.Intn(16))}
		if m.Result == simtc.ResultFailed {
			m.Message = str()
		}
		return m
	case 2:
		m := &simtc.Msg{Code: simtc.TBranchRegisterResult, Result: byte(g.Intn(2)), ExCode: byte(g.Intn(5)), BranchID: g.Int63()}
		if m.Result == simtc.ResultFailed {
			m.Message = str()
		}
		return m
	case 3:
		return &simtc.Msg{Code: simtc.TBranchReportResult, Result: simtc.ResultSuccess, ExCode: byte(g.Intn(5))}
	case 4:
		return &simtc.Msg{Code: simtc.TGlobalLockQueryRes, Result: simtc.ResultSuccess, ExCode: byte(g.Intn(5)), Lockable: g.Bool()}
	case 5:
		return &simtc.Msg{Code: simkit.Pick(g, []int{simtc.TBranchCommit, simtc.TBranchRollback}), Xid: str(), BranchID: g.Int63(), BranchType: byte(simkit.Pick(g, []int{0, 1, 3})), ResourceID: str(), AppData: []byte(str())}
	case 6:
		return &simtc.Msg{Code: simkit.Pick(g, []int{simtc.TRegTMResult, simtc.TRegRMResult}), Identified: g.Bool(), Version: str()}
	}
	return nil // heartbeat
}

func genC13(seed uint64, tier string) *C13Plan {
	g := simkit.NewGen(seed)
	n := 150
	if tier == "thorough" {
		n = 700
	}
	p := &C13Plan{}
	for i := 0; i < n; i++ {
		var e C13Episode
		nf := g.Range(1, 5)
		for j := 0; j < nf; j++ {
			f := C13Frame{ID: int32(g.Intn(1 << 30)), Type: simtc.FrameResponse}
			if g.Prob(0.35) {
				nh := g.Range(1, 3)
				seen := map[string]bool{}
				for k := 0; k < nh; k++ {
					key := simkit.Pick(g, []string{"", "k", "trace-id", "ключ", "a-very-long-header-key"})
					if seen[key] {
						continue
					}
					seen[key] = true
					f.Head = append(f.Head, [2]string{key, simkit.Pick(g, []string{"", "v", "1", "значение", "value with spaces"})})
				}
			}
			if g.Prob(0.2) {
				// client Write -> Read round trip (head map is what matters)
				f.Via = "client"
				f.Type = simtc.FrameRequest
				f.Body = &simtc.Msg{Code: simtc.TGlobalBegin, Name: simkit.Pick(g, c13Strings), TimeoutMs: int32(g.Intn(100000))}
			} else {
				f.Body = genC13Msg(g)
				if f.Body == nil {
					f.Type = byte(simkit.Pick(g, []int{simtc.FrameHeartReq, simtc.FrameHeartResp}))
				} else if f.Body.Code == simtc.TBranchCommit || f.Body.Code == simtc.TBranchRollback {
					f.Type = simtc.FrameRequest
				}
			}
			e.Frames = append(e.Frames, f)
		}
		if g.Prob(0.1) {
			// bytes that look like a frame header but cannot be one: right magic
			// and version, head length beyond the full length
			total := g.Range(16, 64)
			head := total + g.Range(1, 40)
			e.Garbage = []byte{0xda, 0xda, 1, byte(total >> 24), byte(total >> 16), byte(total >> 8), byte(total), byte(head >> 8), byte(head),
				byte(simkit.Pick(g, []int{simtc.FrameRequest, simtc.FrameResponse, simtc.FrameRequest})), 1, 0, 0, 0, 0, byte(g.Intn(200))}
			for k := g.Intn(70); k > 0; k-- {
				e.Garbage = append(e.Garbage, byte(g.Intn(256)))
			}
			e.GarbageKind = "bad-lengths"
		} else if g.Prob(0.15) {
			ng := g.Range(1, 24)
			for k := 0; k < ng; k++ {
				b := byte(g.Intn(256))
				if k < 2 && g.Prob(0.5) {
					b = 0xda
				}
				e.Garbage = append(e.Garbage, b)
			}
		}
		switch {
		case tier == "thorough" && g.Prob(0.08):
			e.Exhaust = 2
		case g.Prob(0.3):
			e.Exhaust = 1
		default:
			// random partition; sizes biased to small chunks near the header
			rem := 4096
			for rem > 0 && len(e.Cuts) < 64 {
				c := simkit.Pick(g, []int{1, 1, 2, 3, 5, 7, 15, 16, 17, 33, 64, 200})
				e.Cuts = append(e.Cuts, c)
				rem -= c
			}
		}
		p.Episodes = append(p.Episodes, e)
	}
	return p
}

func flat(v interface{}, out map[string]interface{}) {
	rv := reflect.ValueOf(v)
	if !rv.IsValid() {
		return
	}
	if rv.Kind() == reflect.Ptr {
		rv = rv.Elem()
	}
	if rv.Kind() != reflect.Struct {
		return
	}
	rt := rv.Type()
	for i := 0; i < rv.NumField(); i++ {
		f := rv.Field(i)
		if rt.Field(i).Anonymous && (f.Kind() == reflect.Struct) {
			flat(f.Interface(), out)
			continue
		}
		if !f.CanInterface() {
			continue
		}
		out[rt.Field(i).Name] = f.Interface()
	}
}

// expectBody lists the decoded fields the property's observer can rely on.
func expectBody(m *simtc.Msg) (typeName string, fields map[string]interface{}) {
	fields = map[string]interface{}{}
	switch m.Code {
	case simtc.TGlobalBeginResult:
		typeName = "GlobalBeginResponse"
		fields["Xid"] = m.Xid
		fields["ResultCode"] = int64(m.Result)
	case simtc.TGlobalCommitResult:
		typeName = "GlobalCommitResponse"
		fields["GlobalStatus"] = int64(m.GlobalStatus)
		fields["ResultCode"] = int64(m.Result)
	case simtc.TGlobalRollbackResult:
		typeName = "GlobalRollbackResponse"
		fields["GlobalStatus"] = int64(m.GlobalStatus)
		fields["ResultCode"] = int64(m.Result)
	case simtc.TBranchRegisterResult:
		typeName = "BranchRegisterResponse"
		fields["BranchId"] = m.BranchID
		fields["ResultCode"] = int64(m.Result)
	case simtc.TBranchReportResult:
		typeName = "BranchReportResponse"
		fields["ResultCode"] = int64(m.Result)
	case simtc.TGlobalLockQueryRes:
		typeName = "GlobalLockQueryResponse"
		fields["Lockable"] = m.Lockable
	case simtc.TBranchCommit:
		typeName = "BranchCommitRequest"
		fields["Xid"] = m.Xid
		fields["BranchId"] = m.BranchID
		fields["ResourceId"] = m.ResourceID
	case simtc.TBranchRollback:
		typeName = "BranchRollbackRequest"
		fields["Xid"] = m.Xid
		fields["BranchId"] = m.BranchID
		fields["ResourceId"] = m.ResourceID
	case simtc.TRegTMResult:
		typeName = "RegisterTMResponse"
		fields["Identified"] = m.Identified
	case simtc.TRegRMResult:
		typeName = "RegisterRMResponse"
		fields["Identified"] = m.Identified
	case simtc.TGlobalBegin:
		typeName = "GlobalBeginRequest"
		fields["TransactionName"] = m.Name
	}
	return
}

func normNum(v interface{}) interface{} {
	rv := reflect.ValueOf(v)
	switch rv.Kind() {
	case reflect.Int, reflect.Int8, reflect.Int16, reflect.Int32, reflect.Int64:
		return rv.Int()
	case reflect.Uint, reflect.Uint8, reflect.Uint16, reflect.Uint32, reflect.Uint64:
		return int64(rv.Uint())
	}
	return v
}

type c13Got struct {
	pkg      interface{}
	consumed int
}

func runC13(t *testing.T, seed uint64, planJSON []byte, tier string) (res *Result) {
	res = &Result{}
	var plan *C13Plan
	if planJSON != nil {
		plan = &C13Plan{}
		if err := json.Unmarshal(planJSON, plan); err != nil {
			res.InvalidPlan = err.Error()
			return res
		}
	} else {
		plan = genC13(seed, tier)
	}
	res.Harness = runBubbleP(t, plan, func(t *testing.T) {
		log.SetLogger(nopLogger{})
		codec.Init()
		sim := simkit.NewSim(simkit.NewTape(seed))
		sim.LogOn = len(plan.Episodes) <= 3
		h := &sgetty.RpcPackageHandler{}
		net := simnet.New(sim, simnet.Config{}, nullSink{}, h, recListener{})
		net.Pool = nil
		net.InlineRead = true
		var got []c13Got
		spin := ""
		net.OnDispatch = func(sess int, pkg interface{}, consumed int) { got = append(got, c13Got{pkg, consumed}) }
		net.OnSpin = func(sess int, d string) { spin = d }

		for ei := range plan.Episodes {
			ep := &plan.Episodes[ei]
			// render the stream
			var stream []byte
			valid := 0
			bad := false
			for fi := range ep.Frames {
				f := &ep.Frames[fi]
				if f.Via == "client" {
					hm := map[string]string{}
					for _, kv := range f.Head {
						hm[kv[0]] = kv[1]
					}
					if f.Body == nil || f.Body.Code != simtc.TGlobalBegin {
						bad = true
						break
					}
					b, err := h.Write(nil, message.RpcMessage{ID: f.ID, Type: message.GettyRequestType(f.Type), Codec: 1, HeadMap: hm,
						Body: message.GlobalBeginRequest{TransactionName: f.Body.Name}})
					if err != nil {
						sim.Violate("C13", "write", "write-error", "episode %d: client Write failed: %v", ei, err)
						bad = true
						break
					}
					f.Bytes = b
				} else {
					if f.Body != nil {
						if _, fields := expectBody(f.Body); len(fields) == 0 {
							bad = true
							break
						}
					}
					var body *simtc.Msg
					if f.Type != simtc.FrameHeartReq && f.Type != simtc.FrameHeartResp {
						body = f.Body
						if body == nil {
							bad = true
							break
						}
					}
					func() {
						defer func() {
							if recover() != nil {
								bad = true
							}
						}()
						f.Bytes = simtc.EncodeFrame(&simtc.Frame{Type: f.Type, Codec: 1, ID: f.ID, Head: f.Head, Body: body})
					}()
				}
				stream = append(stream, f.Bytes...)
			}
			if bad {
				res.InvalidPlan = fmt.Sprintf("episode %d is not renderable", ei)
				return
			}
			valid = len(stream)
			stream = append(stream, ep.Garbage...)

			// partitions to run
			var parts [][]int
			switch ep.Exhaust {
			case 1:
				for c := 1; c < len(stream) && c < 400; c++ {
					parts = append(parts, []int{c, len(stream) - c})
				}
			case 2:
				L := len(stream)
				if L > 160 {
					L = 160
				}
				for a := 1; a < L; a++ {
					for b := a + 1; b < L; b++ {
						parts = append(parts, []int{a, b - a, len(stream) - b})
					}
				}
			default:
				parts = append(parts, ep.Cuts)
			}
			if len(parts) == 0 || len(parts[0]) == 0 {
				parts = [][]int{{len(stream)}}
			}
			for _, cuts := range parts {
				got = got[:0]
				spin = ""
				s := net.Open(TCAddr)
				net.ToClient(s.SimID(), stream)
				left := len(stream)
				for _, c := range cuts {
					if left <= 0 || s.IsClosed() {
						break
					}
					if c <= 0 {
						c = 1
					}
					if c > left {
						c = left
					}
					net.DeliverChunk(s, c)
					left -= c
				}
				if left > 0 && !s.IsClosed() {
					net.DeliverChunk(s, left)
				}
				res.Episodes++
				sig := fmt.Sprintf("n=%d len=%d g=%d cuts=%d first=%d", len(ep.Frames), len(stream), len(ep.Garbage), len(cuts), cuts[0])
				if len(cuts) > 1 {
					sig = "!" + sig
				}
				sim.State(sig)
				checkC13(sim, ei, ep, cuts, s, got, spin, valid, len(stream))
				s.Close()
				if len(sim.Violations()) > 0 {
					break
				}
			}
			if len(sim.Violations()) > 0 {
				// keep only the failing episode in the reported plan
				plan.Episodes = []C13Episode{*ep}
				if ep.Exhaust != 0 {
					plan.Episodes[0].Exhaust = ep.Exhaust
				}
				break
			}
			if len(res.Samples) < 2 {
				res.Samples = append(res.Samples, map[string]any{"frames": len(ep.Frames), "stream_len": len(stream), "partitions": len(parts), "first_partition": parts[0]})
			}
		}
		// drain posted events (none matter here)
		finishResult(res, sim)
	})
	res.Plan, _ = json.Marshal(plan)
	res.Components = map[string]string{"pkg/remoting/getty/readwriter.go (RpcPackageHandler.Read/Write)": "real", "pkg/protocol/codec": "real", "getty receive loop": "replica (simnet.readLoop)", "frame encoder": "independent (simtc)"}
	return res
}

func checkC13(sim *simkit.Sim, ei int, ep *C13Episode, cuts []int, s *simnet.Session, got []c13Got, spin string, valid, total int) {
	v := func(clause, class, f string, a ...any) {
		sim.Violate("C13", clause, class, "episode %d cuts=%v: %s", ei, cuts, fmt.Sprintf(f, a...))
	}
	if s.ReadPanic() != "" {
		v("no-panic", "read-panic", "Read panicked: %s", s.ReadPanic())
		return
	}
	if spin != "" {
		v("no-spin", "spin", "%s", spin)
		return
	}
	// every valid frame must have been yielded, in order, before any garbage matters
	n := len(ep.Frames)
	if len(got) < n {
		if s.ReadErr() != nil {
			v("messages", "error-on-valid-stream", "reader reported %v after %d of %d valid frames", s.ReadErr(), len(got), n)
		} else {
			v("messages", "missing-messages", "yielded %d of %d frames although all bytes were delivered (buffered %d)", len(got), n, s.Buffered())
		}
		return
	}
	consumed := 0
	for i := 0; i < n; i++ {
		f := &ep.Frames[i]
		g := got[i]
		if g.consumed != len(f.Bytes) {
			v("consumed", "wrong-consumed", "frame %d: consumed %d, frame length %d", i, g.consumed, len(f.Bytes))
			return
		}
		consumed += g.consumed
		rm, ok := g.pkg.(message.RpcMessage)
		if !ok {
			v("messages", "not-rpcmessage", "frame %d: yielded %T", i, g.pkg)
			return
		}
		if rm.ID != f.ID || byte(rm.Type) != f.Type {
			v("messages", "wrong-frame-fields", "frame %d: got id=%d type=%d want id=%d type=%d", i, rm.ID, rm.Type, f.ID, f.Type)
			return
		}
		want := map[string]string{}
		for _, kv := range f.Head {
			want[kv[0]] = kv[1]
		}
		gotHM := rm.HeadMap
		if gotHM == nil {
			gotHM = map[string]string{}
		}
		if !reflect.DeepEqual(want, gotHM) {
			cls := "head-map"
			for k, val := range want {
				if val == "" {
					cls = "head-map-empty-value"
				}
				if k == "" && cls == "head-map" {
					cls = "head-map-empty-key"
				}
			}
			v("head-map", cls, "frame %d (via %q): head map got %v want %v", i, f.Via, sortedMap(gotHM), sortedMap(want))
			return
		}
		if f.Body != nil && f.Type != simtc.FrameHeartReq && f.Type != simtc.FrameHeartResp {
			tn, fields := expectBody(f.Body)
			if rm.Body == nil {
				v("messages", "nil-body", "frame %d: body nil, want %s", i, tn)
				return
			}
			if reflect.TypeOf(rm.Body).Name() != tn {
				v("messages", "wrong-body-type", "frame %d: body %T, want %s", i, rm.Body, tn)
				return
			}
			fl := map[string]interface{}{}
			flat(rm.Body, fl)
			for k, w := range fields {
				if !reflect.DeepEqual(normNum(fl[k]), normNum(w)) {
					v("messages", "wrong-body-field", "frame %d: %s.%s = %v, want %v", i, tn, k, fl[k], w)
					return
				}
			}
		}
	}
	if ep.GarbageKind == "bad-lengths" && len(got) > n {
		v("messages", "message-from-non-frame-bytes", "yielded %d messages for %d frames: the extra one was made of bytes whose head length exceeds their full length", len(got), n)
		return
	}
	if len(ep.Garbage) == 0 {
		if len(got) != n {
			v("messages", "extra-messages", "yielded %d messages for %d frames", len(got), n)
			return
		}
		if consumed != total || s.Buffered() != 0 {
			v("consumed", "sum-consumed", "sum consumed %d, stream %d, left buffered %d", consumed, total, s.Buffered())
		}
		if s.ReadErr() != nil {
			v("messages", "error-on-valid-stream", "reader reported %v on a valid stream", s.ReadErr())
		}
	}
}

func sortedMap(m map[string]string) string {
	var ks []string
	for k := range m {
		ks = append(ks, k)
	}
	sort.Strings(ks)
	s := "{"
	for _, k := range ks {
		s += fmt.Sprintf("%q:%q ", k, m[k])
	}
	return s + "}"
}

func init() { engines["C13"] = runC13 }
