package sim

import (
	"context"
	"encoding/json"
	"errors"
	"fmt"
	"net/http"
	"net/http/httptest"
	"strings"
	"testing"
	"time"

	"dubbo.apache.org/dubbo-go/v3/common"
	"dubbo.apache.org/dubbo-go/v3/protocol"
	"dubbo.apache.org/dubbo-go/v3/protocol/invocation"
	"github.com/gin-gonic/gin"
	"google.golang.org/grpc"
	"google.golang.org/grpc/metadata"

	"seata.apache.org/seata-go/pkg/constant"
	sdubbo "seata.apache.org/seata-go/pkg/integration/dubbo"
	sgin "seata.apache.org/seata-go/pkg/integration/gin"
	sgrpc "seata.apache.org/seata-go/pkg/integration/grpc"
	"seata.apache.org/seata-go/pkg/tm"

	"verif/simkit"
	"verif/simnet"
	"verif/simtc"
)

// C07 — propagation modes and transaction context across nesting and RPC.

var c07Props = []string{"Required", "RequiresNew", "NotSupported", "Supports", "Never", "Mandatory"}
var c07PropVal = map[string]tm.Propagation{"Required": tm.Required, "RequiresNew": tm.RequiresNew, "NotSupported": tm.NotSupported, "Supports": tm.Supports, "Never": tm.Never, "Mandatory": tm.Mandatory}

type C07Node struct {
	Prop     string     `json:"prop"`
	Outcome  string     `json:"outcome"` // nil | error
	Link     string     `json:"link"`    // root | same | fresh | grpc | grpc-lower | gin | gin-lower | dubbo | dubbo-java | dubbo-lower
	Children []*C07Node `json:"children,omitempty"`
	name     string
}

type C07Plan struct {
	Trees []*C07Node `json:"trees"`
	Tape  []int      `json:"tape"`
}

func genC07Node(g *simkit.Gen, depth int, shared bool) *C07Node {
	n := &C07Node{Prop: simkit.Pick(g, c07Props), Outcome: simkit.Pick(g, []string{"nil", "nil", "error"})}
	if depth < 3 {
		nc := 0
		if g.Prob(0.75) {
			nc = g.Range(1, 2)
		}
		for i := 0; i < nc; i++ {
			c := genC07Node(g, depth+1, shared)
			if shared && g.Prob(0.5) {
				c.Link = "same"
			} else {
				c.Link = simkit.Pick(g, []string{"fresh", "fresh", "grpc", "grpc-lower", "grpc-fwd", "gin", "gin-lower", "dubbo", "dubbo-golower", "dubbo-java", "dubbo-lower", "dubbo-fwd"})
			}
			n.Children = append(n.Children, c)
		}
	}
	return n
}

func genC07(seed uint64, tier string) *C07Plan {
	g := simkit.NewGen(seed)
	n := 40
	if tier == "thorough" {
		n = 250
	}
	p := &C07Plan{}
	for i := 0; i < n; i++ {
		// trees that share one context between scopes (local calls) are the
		// known-finding area; most trees use remote-style links only
		t := genC07Node(g, 1, g.Prob(0.5))
		t.Link = "root"
		p.Trees = append(p.Trees, t)
	}
	return p
}

// ---- reference interpreter of the documented propagation semantics -------------

type c07Exp struct {
	// per scope (by name)
	ran     map[string]bool   // callback expected to run
	sees    map[string]string // name of the scope whose transaction the callback sees ("" = none)
	launch  map[string]string // launching scope -> expected end kind ("commit"/"rollback")
	refused map[string]bool   // Mandatory/Never precondition unmet: error, callback not run
}

// interp walks the tree; cur = name of the scope whose transaction is current ("" none).
func (e *c07Exp) interp(n *C07Node, cur string) {
	join := func() { e.ran[n.name] = true; e.sees[n.name] = cur }
	begin := func() {
		e.ran[n.name] = true
		e.sees[n.name] = n.name
		if n.Outcome == "nil" {
			e.launch[n.name] = "commit"
		} else {
			e.launch[n.name] = "rollback"
		}
	}
	none := func() { e.ran[n.name] = true; e.sees[n.name] = "" }
	switch n.Prop {
	case "Required":
		if cur != "" {
			join()
		} else {
			begin()
		}
	case "RequiresNew":
		begin()
	case "NotSupported":
		none()
	case "Supports":
		if cur != "" {
			join()
		} else {
			none()
		}
	case "Never":
		if cur != "" {
			e.refused[n.name] = true
			return
		}
		none()
	case "Mandatory":
		if cur == "" {
			e.refused[n.name] = true
			return
		}
		join()
	}
	inner := e.sees[n.name]
	for _, c := range n.Children {
		// the gin middleware refuses a request without xid: the callee does not run
		if strings.HasPrefix(c.Link, "gin") && inner == "" {
			continue
		}
		e.interp(c, inner)
	}
}

// ---- execution ---------------------------------------------------------------------

type c07Obs struct {
	ran      map[string]bool
	sawXid   map[string]string
	ret      map[string]error
	intact   []string // violations of "enclosing scope intact after inner scope returns"
	panicked map[string]interface{}
	// entering: xid under which the scope making the current call was entered
	entering string
}

type dubboInvoker struct {
	f func(ctx context.Context, inv protocol.Invocation)
	// side: "consumer" for the invoker behind a reference, "provider" for an
	// exported service (dubbo-go puts it into the url)
	side string
}

func (d *dubboInvoker) GetURL() *common.URL {
	return common.NewURLWithOptions(common.WithParamsValue("side", d.side))
}
func (d *dubboInvoker) IsAvailable() bool { return true }
func (d *dubboInvoker) Destroy()          {}
func (d *dubboInvoker) Invoke(ctx context.Context, inv protocol.Invocation) protocol.Result {
	d.f(ctx, inv)
	return &protocol.RPCResult{}
}

func (o *c07Obs) exec(ctx context.Context, n *C07Node) {
	defer func() {
		if r := recover(); r != nil {
			o.panicked[n.name] = r
		}
	}()
	enteringXid := ""
	if tm.IsSeataContext(ctx) {
		enteringXid = tm.GetXID(ctx)
	}
	err := tm.WithGlobalTx(ctx, &tm.GtxConfig{Name: n.name, Propagation: c07PropVal[n.Prop], Timeout: 60 * time.Second}, func(c context.Context) error {
		o.ran[n.name] = true
		o.sawXid[n.name] = tm.GetXID(c)
		for _, ch := range n.Children {
			o.entering = enteringXid
			bx, bname := tm.GetXID(c), tm.GetTxName(c)
			var brole tm.GlobalTransactionRole
			if r := tm.GetTxRole(c); r != nil {
				brole = *r
			}
			o.call(c, ch)
			ax, aname := tm.GetXID(c), tm.GetTxName(c)
			var arole tm.GlobalTransactionRole
			if r := tm.GetTxRole(c); r != nil {
				arole = *r
			}
			if bx != ax || bname != aname || brole != arole {
				o.intact = append(o.intact, fmt.Sprintf("%s|after inner scope %s (%s, link %s) the enclosing scope %s has xid/name/role %q/%q/%d, before %q/%q/%d", ch.Prop+"/"+ch.Link, ch.name, ch.Prop, ch.Link, n.name, ax, aname, arole, bx, bname, brole))
			}
		}
		if n.Outcome == "error" {
			return errors.New("business failed in " + n.name)
		}
		return nil
	})
	o.ret[n.name] = err
}

func (o *c07Obs) call(c context.Context, ch *C07Node) {
	xid := tm.GetXID(c)
	switch ch.Link {
	case "same":
		o.exec(c, ch)
	case "fresh":
		nc := context.Background()
		if xid != "" {
			nc = tm.InitSeataContext(nc)
			tm.SetXID(nc, xid)
		}
		o.exec(nc, ch)
	case "grpc", "grpc-lower", "grpc-fwd":
		if ch.Link == "grpc-fwd" {
			// a service in the middle of a call chain forwards the metadata it was
			// called with (trace id ... and the xid it was entered under, which is
			// not the current one inside a RequiresNew / NotSupported scope)
			fwd := metadata.MD{"trace-id": []string{"t-" + ch.name}}
			if o.entering != "" {
				fwd[constant.XidKeyLowercase] = []string{o.entering}
			}
			c = metadata.NewOutgoingContext(c, fwd)
		}
		invoker := func(ctx context.Context, method string, req, reply interface{}, cc *grpc.ClientConn, opts ...grpc.CallOption) error {
			md, _ := metadata.FromOutgoingContext(ctx)
			in := metadata.MD{}
			for k, v := range md {
				in[k] = v // grpc lower-cases metadata keys on the wire (metadata.New does already)
			}
			sctx := metadata.NewIncomingContext(context.Background(), in)
			_, err := sgrpc.ServerTransactionInterceptor(sctx, nil, nil, func(hctx context.Context, req interface{}) (interface{}, error) {
				o.exec(hctx, ch)
				return nil, nil
			})
			return err
		}
		sgrpc.ClientTransactionInterceptor(c, "/svc/m", nil, nil, nil, invoker)
	case "gin", "gin-lower":
		gin.SetMode(gin.ReleaseMode)
		r := gin.New()
		r.ContextWithFallback = true
		r.Use(sgin.TransactionMiddleware())
		r.GET("/x", func(gc *gin.Context) {
			o.exec(gc.Request.Context(), ch)
			gc.Status(200)
		})
		req := httptest.NewRequest(http.MethodGet, "/x", nil)
		if xid != "" {
			if ch.Link == "gin" {
				req.Header.Set("TX_XID", xid)
			} else {
				req.Header.Set("tx_xid", xid)
			}
		}
		r.ServeHTTP(httptest.NewRecorder(), req)
	case "dubbo", "dubbo-golower", "dubbo-java", "dubbo-lower", "dubbo-fwd":
		f := sdubbo.GetDubboTransactionFilter()
		client := &dubboInvoker{side: "consumer", f: func(ctx context.Context, inv protocol.Invocation) {
			att := map[string]interface{}{}
			switch ch.Link {
			case "dubbo", "dubbo-fwd":
				if v, ok := inv.GetAttachment("SEATA_XID"); ok {
					att["SEATA_XID"] = v
				}
			case "dubbo-golower":
				// a transport that lower-cases attachment names (the filter accepts
				// the dubbo-go key in both spellings)
				if v, ok := inv.GetAttachment("SEATA_XID"); ok {
					att["seata_xid"] = v
				}
			case "dubbo-java":
				if v, ok := inv.GetAttachment("TX_XID"); ok {
					att["TX_XID"] = v
				}
			case "dubbo-lower":
				if v, ok := inv.GetAttachment("TX_XID"); ok {
					att["tx_xid"] = v
				}
			}
			server := &dubboInvoker{side: "provider", f: func(sctx context.Context, _ protocol.Invocation) { o.exec(sctx, ch) }}
			f.Invoke(context.Background(), server, invocation.NewRPCInvocation("m", nil, att))
		}}
		out := map[string]interface{}{}
		if ch.Link == "dubbo-fwd" && o.entering != "" {
			// dubbo-go copies the attachments a provider was called with onto the
			// invocations it makes itself: the xid this service was entered under
			// is already there when the consumer-side filter runs
			out["SEATA_XID"] = o.entering
			out["TX_XID"] = o.entering
		}
		f.Invoke(c, client, invocation.NewRPCInvocation("m", nil, out))
	}
}

func nameTree(n *C07Node, prefix string) {
	n.name = prefix
	for i, c := range n.Children {
		nameTree(c, fmt.Sprintf("%s.%d", prefix, i))
	}
}

func walk(n *C07Node, f func(*C07Node)) {
	f(n)
	for _, c := range n.Children {
		walk(c, f)
	}
}

func runC07(t *testing.T, seed uint64, planJSON []byte, tier string) (res *Result) {
	res = &Result{}
	var plan *C07Plan
	var tape *simkit.Tape
	if planJSON != nil {
		plan = &C07Plan{}
		if err := json.Unmarshal(planJSON, plan); err != nil {
			res.InvalidPlan = err.Error()
			return res
		}
		tape = simkit.ReplayTape(plan.Tape)
	} else {
		plan = genC07(seed, tier)
		tape = simkit.NewTape(seed)
	}
	for _, tr := range plan.Trees {
		bad := false
		walk(tr, func(n *C07Node) {
			if _, ok := c07PropVal[n.Prop]; !ok {
				bad = true
			}
		})
		if bad || tr == nil {
			res.InvalidPlan = "unknown propagation"
			return res
		}
	}
	res.Harness = runBubbleP(t, plan, func(t *testing.T) {
		w := bootRemoting(seed, tape, BootCfg{LoadBalance: "RandomLoadBalance", CommitRetry: 1, RollbackRetry: 1}, simnet.Config{FragmentPct: 10})
		sim, tc, net := w.Sim, w.TC, w.Net
		sim.Known = loadKnown("C07")
		sim.MaxStep = 1000000
		sim.MaxTime = 1000 * time.Hour
		tc.AutoP2 = false
		net.Open(TCAddr)
		sim.Run(func() bool { return tc.SessionIsTM(0) && sim.Enabled() == 0 })
		for ti, tr := range plan.Trees {
			nameTree(tr, fmt.Sprintf("t%d", ti))
			exp := &c07Exp{ran: map[string]bool{}, sees: map[string]string{}, launch: map[string]string{}, refused: map[string]bool{}}
			exp.interp(tr, "")
			obs := &c07Obs{ran: map[string]bool{}, sawXid: map[string]string{}, ret: map[string]error{}, panicked: map[string]interface{}{}}
			logStart := len(tc.Log)
			done := false
			sim.Go("c07", func() {
				defer func() { done = true }()
				obs.exec(context.Background(), tr)
			})
			t0 := sim.Now()
			sim.Run(func() bool { return done || sim.Now()-t0 > 3000*time.Second })
			res.Episodes++
			checkC07(sim, tc, ti, tr, exp, obs, logStart, done)
			shared, depth, links := false, 0, map[string]bool{}
			var dep func(n *C07Node, d int)
			dep = func(n *C07Node, d int) {
				if d > depth {
					depth = d
				}
				links[n.Link] = true
				if n.Link == "same" {
					shared = true
				}
				for _, c := range n.Children {
					dep(c, d+1)
				}
			}
			dep(tr, 1)
			b, _ := json.Marshal(tr)
			sig := string(b)
			if depth > 1 {
				sig = "!" + sig
			}
			sim.State(sig)
			_ = shared
			if len(res.Samples) < 2 && depth > 1 {
				res.Samples = append(res.Samples, tr)
			}
			if !done || len(sim.Violations()) > 0 {
				break
			}
		}
		plan.Tape = tape.Rec
		finishResult(res, sim)
	})
	res.Plan, _ = json.Marshal(plan)
	res.Components = map[string]string{"pkg/tm (executor, context)": "real", "pkg/integration/{grpc,gin,dubbo}": "real (plain functions; the wire is the metadata/header/attachment map copied into a fresh context)", "pkg/remoting/getty": "real", "coordinator": "model (simtc), fault-free"}
	return res
}

func checkC07(sim *simkit.Sim, tc *simtc.TC, ti int, tr *C07Node, exp *c07Exp, obs *c07Obs, logStart int, done bool) {
	tree, _ := json.Marshal(tr)
	// class prefix: does the tree share a context between scopes?
	parent := map[string]*C07Node{}
	walk(tr, func(n *C07Node) {
		for _, c := range n.Children {
			parent[c.name] = n
		}
	})
	underShared := func(n *C07Node) bool {
		// true if some scope on the path to n (or a sibling executed earlier under a
		// shared context) was linked with "same": the documented limitation area
		for m := n; m != nil; m = parent[m.name] {
			if m.Link == "same" {
				return true
			}
			if p := parent[m.name]; p != nil {
				for _, s := range p.Children {
					if s.Link == "same" {
						return true
					}
				}
			}
		}
		return false
	}
	v := func(n *C07Node, clause, class, f string, a ...any) {
		if n != nil && underShared(n) {
			class = "shared-ctx-" + class
		}
		sim.Violate("C07", clause, class, "tree %d %s: %s", ti, tree, fmt.Sprintf(f, a...))
	}
	if !done {
		v(nil, "termination", "stuck", "scope tree did not finish")
		return
	}
	// request log per begin name
	xidOf := map[string]string{} // scope name -> xid allocated by its begin
	begins := map[string]int{}
	ends := map[string][]string{} // xid -> kinds
	// responses carry the xid allocated to a begin: pair request ids
	reqName := map[int32]string{}
	for _, r := range tc.Log[logStart:] {
		if r.F.Body == nil {
			continue
		}
		switch r.F.Body.Code {
		case simtc.TGlobalBegin:
			begins[r.F.Body.Name]++
			reqName[r.F.ID] = r.F.Body.Name
		case simtc.TGlobalBeginResult:
			if nme, ok := reqName[r.F.ID]; ok {
				xidOf[nme] = r.F.Body.Xid
			}
		case simtc.TGlobalCommit:
			ends[r.F.Body.Xid] = append(ends[r.F.Body.Xid], "commit")
		case simtc.TGlobalRollback:
			ends[r.F.Body.Xid] = append(ends[r.F.Body.Xid], "rollback")
		}
	}
	walk(tr, func(n *C07Node) {
		if p, ok := obs.panicked[n.name]; ok {
			v(n, "no-crash", "panic", "scope %s (%s) panicked: %v", n.name, n.Prop, p)
			return
		}
		expRan := exp.ran[n.name]
		_, reached := obs.ret[n.name]
		if !reached && !obs.ran[n.name] {
			// the scope was never entered (an ancestor was refused or did not run)
			if expRan || exp.refused[n.name] {
				// only a violation if its parent ran as expected; ancestors report their own problem
			}
			return
		}
		if exp.refused[n.name] {
			if obs.ran[n.name] {
				v(n, "precondition", "refusal-missing-"+n.Prop, "scope %s (%s) ran although its precondition is unmet", n.name, n.Prop)
			} else if obs.ret[n.name] == nil {
				v(n, "precondition", "refusal-nil-"+n.Prop, "scope %s (%s) returned nil although its precondition is unmet", n.name, n.Prop)
			}
			if begins[n.name] > 0 {
				v(n, "requests", "begin-by-refused-"+n.Prop, "refused scope %s sent GlobalBegin", n.name)
			}
			return
		}
		if expRan != obs.ran[n.name] {
			v(n, "callback-runs", "ran-mismatch-"+n.Prop, "scope %s (%s): callback ran=%v, documented semantics say %v (returned %v)", n.name, n.Prop, obs.ran[n.name], expRan, obs.ret[n.name])
			return
		}
		if !expRan {
			return
		}
		// requests
		kind, launches := exp.launch[n.name]
		if launches {
			if begins[n.name] != 1 {
				v(n, "requests", "begin-count-"+n.Prop, "scope %s (%s) must begin exactly one transaction, GlobalBegin seen %d times", n.name, n.Prop, begins[n.name])
				return
			}
			x := xidOf[n.name]
			if obs.sawXid[n.name] != x {
				v(n, "inner-xid", "wrong-xid-launcher-"+n.Prop, "scope %s (%s) launched %q but its callback saw xid %q", n.name, n.Prop, x, obs.sawXid[n.name])
			}
			if got := ends[x]; len(got) != 1 || got[0] != kind {
				v(n, "requests", "end-"+n.Prop, "transaction %q launched by %s (%s, outcome %s): end requests %v, want exactly [%s]", x, n.name, n.Prop, n.Outcome, got, kind)
			}
		} else {
			if begins[n.name] > 0 {
				v(n, "requests", "begin-by-nonlauncher-"+n.Prop, "scope %s (%s) must not begin a transaction but sent GlobalBegin", n.name, n.Prop)
			}
			want := ""
			if s := exp.sees[n.name]; s != "" {
				want = xidOf[s]
			}
			if obs.sawXid[n.name] != want {
				v(n, "inner-xid", "wrong-xid-"+n.Prop, "scope %s (%s, link %s) saw xid %q, documented semantics say %q", n.name, n.Prop, n.Link, obs.sawXid[n.name], want)
			}
		}
		// truthful return of the scope itself
		if n.Outcome == "error" && obs.ret[n.name] == nil {
			v(n, "return", "nil-after-error-"+n.Prop, "scope %s returned nil although its callback failed", n.name)
		}
	})
	for _, s := range obs.intact {
		parts := strings.SplitN(s, "|", 2)
		cls := "enclosing-not-intact-" + parts[0]
		if strings.HasSuffix(parts[0], "/same") {
			cls = "shared-ctx-" + cls
		}
		sim.Violate("C07", "enclosing-intact", cls, "tree %d %s: %s", ti, tree, parts[1])
	}
	// no end request for a transaction nobody launched in this tree
	known := map[string]bool{}
	for _, x := range xidOf {
		known[x] = true
	}
	for x, k := range ends {
		if !known[x] {
			sim.Violate("C07", "requests", "end-for-foreign-xid", "tree %d %s: end requests %v for xid %q which no scope of this tree launched", ti, tree, k, x)
		}
	}
}

func init() { engines["C07"] = runC07 }
