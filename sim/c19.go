package sim

import (
	"context"
	"encoding/json"
	"errors"
	"fmt"
	"strings"
	"sync"
	"testing"
	"time"

	getty "github.com/apache/dubbo-getty"

	"seata.apache.org/seata-go/pkg/protocol/message"
	remoteConfig "seata.apache.org/seata-go/pkg/remoting/config"
	sgetty "seata.apache.org/seata-go/pkg/remoting/getty"
	"seata.apache.org/seata-go/pkg/remoting/loadbalance"
	"seata.apache.org/seata-go/pkg/remoting/rpc"
	"seata.apache.org/seata-go/pkg/rm/tcc"
	"seata.apache.org/seata-go/pkg/tm"
	"seata.apache.org/seata-go/pkg/util/log"

	"verif/simkit"
	"verif/simnet"
	"verif/simtc"
)

// C19 — only live sessions are chosen; reconnection restores both directions.
// Modes: "select" (loadbalance.Select over session histories), "route"
// (selection through SendSyncRequest with several coordinators) and
// "reconnect" (session loss at any point of a TM+TCC workload).

var c19Policies = []string{"RandomLoadBalance", "XID", "RoundRobinLoadBalance", "ConsistentHashLoadBalance", "LeastActiveLoadBalance", "unknown-policy"}
var c19Addrs = []string{"10.0.0.7:8091", "10.0.0.8:8091", "10.0.0.9:8092", "192.168.1.20:8091"}

type C19Op struct {
	Op     string `json:"op"` // open | close | closeonly | select | busy
	Addr   int    `json:"addr,omitempty"`
	Idx    int    `json:"idx,omitempty"`
	Policy string `json:"policy,omitempty"`
	Xid    string `json:"xid,omitempty"`
}

type C19Plan struct {
	Mode string  `json:"mode"`
	Ops  []C19Op `json:"ops,omitempty"`
	// reconnect mode
	Policy    string   `json:"policy,omitempty"`
	Resources int      `json:"resources,omitempty"`
	Losses    []string `json:"losses,omitempty"` // idle | inflight | between-phases
	// RegLoss k > 0: the connection dies while the RegisterRM request of the k-th
	// resource is in flight (the client has the resource, the coordinator not yet)
	RegLoss int `json:"reg_loss,omitempty"`
	// Servers (reconnect mode): 1 or 2 coordinators the client is connected to
	Servers int `json:"servers,omitempty"`
	// GettyOrder: the transport reconnects the way dubbo-getty does (successor
	// opened inside Close() / before OnClose of the old session)
	GettyOrder bool `json:"getty_order,omitempty"`
	// HeartbeatMs > 0: OnCron heart-beats (needed for the loss kind "silent")
	HeartbeatMs int   `json:"heartbeat_ms,omitempty"`
	Tape        []int `json:"tape"`
}

func genC19(seed uint64, tier, mode string) *C19Plan {
	g := simkit.NewGen(seed)
	p := &C19Plan{Mode: mode}
	xids := func() string {
		switch g.Intn(6) {
		case 0:
			return ""
		case 1:
			return "not-an-xid"
		case 2:
			return "1.2.3.4:1:77" // nobody is connected there
		}
		return fmt.Sprintf("%s:%d", simkit.Pick(g, c19Addrs), 1000+g.Intn(50))
	}
	switch mode {
	case "select":
		n := 400
		if tier == "thorough" {
			n = 1500
		}
		// one policy dominates a run (the consistent-hash ring is a process-wide singleton)
		main := simkit.Pick(g, c19Policies)
		for i := 0; i < n; i++ {
			switch r := g.Intn(10); {
			case r < 2:
				p.Ops = append(p.Ops, C19Op{Op: "open", Addr: g.Intn(len(c19Addrs))})
			case r < 3 && g.Bool():
				// a connection dies and is re-established to the same address before
				// the dead session has been released
				p.Ops = append(p.Ops, C19Op{Op: "reopen", Idx: g.Intn(8)})
			case r < 3:
				p.Ops = append(p.Ops, C19Op{Op: "close", Idx: g.Intn(8)})
			case r < 4:
				p.Ops = append(p.Ops, C19Op{Op: "closeonly", Idx: g.Intn(8)})
			case r < 5:
				p.Ops = append(p.Ops, C19Op{Op: "busy", Addr: g.Intn(len(c19Addrs))})
			default:
				pol := main
				if g.Prob(0.2) {
					pol = simkit.Pick(g, c19Policies)
				}
				p.Ops = append(p.Ops, C19Op{Op: "select", Policy: pol, Xid: xids()})
			}
		}
	case "route":
		p.Policy = "XID"
		n := 12
		if tier == "thorough" {
			n = 40
		}
		for i := 0; i < n; i++ {
			p.Ops = append(p.Ops, C19Op{Op: "select", Addr: g.Intn(3)})
		}
	case "reconnect":
		p.Policy = simkit.Pick(g, c19Policies[:5])
		p.Resources = g.Range(1, 3)
		p.Servers = simkit.Pick(g, []int{1, 1, 2})
		n := g.Range(1, 3)
		for i := 0; i < n; i++ {
			p.Losses = append(p.Losses, simkit.Pick(g, []string{"idle", "inflight", "between-phases", "silent", "announce-fail"}))
		}
		p.GettyOrder = g.Bool()
		for _, l := range p.Losses {
			if l == "silent" {
				p.HeartbeatMs = 5000
			}
		}
		if g.Prob(0.25) {
			p.RegLoss = g.Range(1, 3)
		}
	}
	return p
}

func runC19(t *testing.T, seed uint64, planJSON []byte, tier string) (res *Result) {
	res = &Result{}
	var plan *C19Plan
	var tape *simkit.Tape
	if planJSON != nil {
		plan = &C19Plan{}
		if err := json.Unmarshal(planJSON, plan); err != nil {
			res.InvalidPlan = err.Error()
			return res
		}
		tape = simkit.ReplayTape(plan.Tape)
	} else {
		mode := *flagMode
		if mode == "" {
			mode = []string{"select", "route", "reconnect"}[seed%3]
		}
		plan = genC19(seed, tier, mode)
		tape = simkit.NewTape(seed)
	}
	switch plan.Mode {
	case "select":
		res.Harness = runBubbleP(t, plan, func(t *testing.T) { c19Select(seed, tape, plan, res) })
	case "route":
		res.Harness = runBubbleP(t, plan, func(t *testing.T) { c19Route(seed, tape, plan, res) })
	case "reconnect":
		res.Harness = runBubbleP(t, plan, func(t *testing.T) { c19Reconnect(seed, tape, plan, res) })
	default:
		res.InvalidPlan = "unknown mode " + plan.Mode
	}
	res.Plan, _ = json.Marshal(plan)
	res.Components = map[string]string{"pkg/remoting/loadbalance": "real", "pkg/remoting/getty session manager / listener": "real", "pkg/rm (resource registration), pkg/rm/tcc": "real", "dubbo-getty transport + reconnect loop": "stub (simnet)", "coordinator": "model (simtc), routes phase two only to sessions that registered the resource"}
	return res
}

// ---- mode select ---------------------------------------------------------------

func c19Select(seed uint64, tape *simkit.Tape, plan *C19Plan, res *Result) {
	log.SetLogger(nopLogger{})
	sim := simkit.NewSim(tape)
	sim.Known = loadKnown("C19")
	net := simnet.New(sim, simnet.Config{}, nullSink{}, &sgetty.RpcPackageHandler{}, recListener{})
	var reg sync.Map
	var all []*simnet.Session
	isReg := func(s getty.Session) bool { _, ok := reg.Load(s); return ok }
	for i, op := range plan.Ops {
		switch op.Op {
		case "open":
			if op.Addr < 0 || op.Addr >= len(c19Addrs) {
				continue
			}
			s := net.Open(c19Addrs[op.Addr])
			all = append(all, s)
			reg.Store(getty.Session(s), true)
		case "close", "closeonly", "reopen":
			if len(all) == 0 {
				continue
			}
			s := all[((op.Idx%len(all))+len(all))%len(all)]
			if op.Op == "close" {
				// what releaseSession does: unregister, then close
				reg.Delete(getty.Session(s))
			}
			s.Close()
			if op.Op == "reopen" {
				s2 := net.Open(s.RemoteAddr())
				all = append(all, s2)
				reg.Store(getty.Session(s2), true)
			}
		case "busy":
			if op.Addr >= 0 && op.Addr < len(c19Addrs) {
				rpc.BeginCount(c19Addrs[op.Addr])
			}
		case "select":
			// the set of registered, open sessions at call time
			var open []getty.Session
			reg.Range(func(k, _ interface{}) bool {
				if s := k.(getty.Session); !s.IsClosed() {
					open = append(open, s)
				}
				return true
			})
			var want getty.Session
			if op.Policy == "XID" {
				if parts := strings.Split(op.Xid, ":"); len(parts) == 3 {
					for _, s := range open {
						if s.RemoteAddr() == parts[0]+":"+parts[1] {
							want = s
						}
					}
				}
			}
			var got getty.Session
			var pan interface{}
			func() {
				defer func() { pan = recover() }()
				got = loadbalance.Select(op.Policy, &reg, op.Xid)
			}()
			res.Episodes++
			v := func(clause, class, f string, a ...any) {
				sim.Violate("C19", clause, class, "op %d select(%s, xid=%q) with %d open registered session(s): %s", i, op.Policy, op.Xid, len(open), fmt.Sprintf(f, a...))
			}
			sig := fmt.Sprintf("%s|open=%d|all=%d|xidform=%v|want=%v", op.Policy, len(open), len(all), strings.Count(op.Xid, ":") == 2, want != nil)
			if len(all) > len(open) {
				sig = "!" + sig
			}
			sim.State(sig)
			switch {
			case pan != nil:
				v("no-crash", "select-panic-"+op.Policy, "Select panicked: %v", pan)
			case got == nil:
				if len(open) > 0 {
					v("nil-only-if-none-open", "nil-with-open-"+op.Policy, "returned nil")
				}
			default:
				if got.IsClosed() {
					v("never-closed", "closed-session-"+op.Policy, "returned a closed session (%s)", got.Stat())
				} else if !isRegisteredBefore(open, got) {
					v("registered-only", "unregistered-session-"+op.Policy, "returned a session that is not registered (%s)", got.Stat())
				}
				if want != nil && got.RemoteAddr() != want.RemoteAddr() {
					v("xid-affinity", "xid-wrong-session", "returned session to %s although an open session to %s exists", got.RemoteAddr(), want.RemoteAddr())
				}
			}
			_ = isReg
			// the consistent-hash policy refreshes its ring in a goroutine
			sim.Sleep(time.Millisecond)
		}
		if len(sim.Violations()) > 0 {
			break
		}
	}
	if len(res.Samples) < 1 {
		n := len(plan.Ops)
		if n > 12 {
			n = 12
		}
		res.Samples = append(res.Samples, map[string]any{"mode": "select", "first_ops": plan.Ops[:n]})
	}
	plan.Tape = tape.Rec
	finishResult(res, sim)
}

func isRegisteredBefore(open []getty.Session, s getty.Session) bool {
	for _, o := range open {
		if o == s {
			return true
		}
	}
	return false
}

// ---- mode route ----------------------------------------------------------------

func c19Route(seed uint64, tape *simkit.Tape, plan *C19Plan, res *Result) {
	w := bootRemoting(seed, tape, BootCfg{LoadBalance: "XID", CommitRetry: 1, RollbackRetry: 1}, simnet.Config{FragmentPct: 10})
	sim, tc, net := w.Sim, w.TC, w.Net
	sim.Known = loadKnown("C19")
	tc.AutoP2 = false
	remoteConfig.GetSeataConfig().LoadBalanceType = "XID"
	for i := 0; i < 3; i++ {
		net.Open(c19Addrs[i])
	}
	tq := sim.Now()
	sim.Run(func() bool { return sim.Now()-tq > 30*time.Second && sim.Enabled() == 0 })
	for i := 0; i < 3; i++ {
		if !tc.SessionIsTM(i) {
			tmN, _ := tc.SessionRegCounts(0)
			sim.Violate("C19", "reannounce-tm", "register-tm-on-wrong-session", "session s%d to %s was opened but no RegisterTM arrived on it (s0 received %d)", i, c19Addrs[i], tmN)
			break
		}
	}
	for i, op := range plan.Ops {
		if op.Addr < 0 || op.Addr > 2 {
			continue
		}
		xid := fmt.Sprintf("%s:%d", c19Addrs[op.Addr], 5000+i)
		tc.Globals[xid] = &simtc.Global{Xid: xid, Status: simtc.GSBegin}
		tc.Order = append(tc.Order, xid)
		before := len(tc.Log)
		done := false
		var err error
		sim.Go("route", func() {
			defer func() { recover(); done = true }()
			_, err = sgetty.GetGettyRemotingClient().SendSyncRequest(message.GlobalCommitRequest{AbstractGlobalEndRequest: message.AbstractGlobalEndRequest{Xid: xid}})
		})
		t0 := sim.Now()
		sim.Run(func() bool { return done || sim.Now()-t0 > 100*time.Second })
		res.Episodes++
		arrived := -1
		for _, r := range tc.Log[before:] {
			if r.In && r.F.Body != nil && r.F.Body.Code == simtc.TGlobalCommit && r.F.Body.Xid == xid {
				arrived = r.Sess
			}
		}
		sim.State(fmt.Sprintf("!route addr=%d arrived=%d", op.Addr, arrived))
		if !done {
			sim.Violate("C19", "route-termination", "route-stuck", "request for xid %s never returned", xid)
		} else if arrived >= 0 && net.Session(arrived).RemoteAddr() != c19Addrs[op.Addr] {
			sim.Violate("C19", "xid-affinity", "xid-route-via-sendsync", "policy XID: GlobalCommit for xid %s was sent on the session to %s although a session to %s is open (err=%v)", xid, net.Session(arrived).RemoteAddr(), c19Addrs[op.Addr], err)
		} else if arrived < 0 {
			sim.Violate("C19", "route-termination", "route-lost", "request for xid %s never reached a coordinator (err=%v)", xid, err)
		}
		if len(sim.Violations()) > 0 {
			break
		}
	}
	res.Samples = append(res.Samples, map[string]any{"mode": "route", "ops": len(plan.Ops)})
	plan.Tape = tape.Rec
	finishResult(res, sim)
}

// ---- mode reconnect --------------------------------------------------------------

type c19Params struct {
	A string `tccParam:"a"`
}

type c19Action struct {
	name      string
	commits   int
	rollbacks int
}

func (a *c19Action) Prepare(ctx context.Context, params interface{}) (bool, error) { return true, nil }
func (a *c19Action) Commit(ctx context.Context, c *tm.BusinessActionContext) (bool, error) {
	a.commits++
	return true, nil
}
func (a *c19Action) Rollback(ctx context.Context, c *tm.BusinessActionContext) (bool, error) {
	a.rollbacks++
	return true, nil
}
func (a *c19Action) GetActionName() string { return a.name }

func c19Reconnect(seed uint64, tape *simkit.Tape, plan *C19Plan, res *Result) {
	w := bootRemoting(seed, tape, BootCfg{LoadBalance: plan.Policy, CommitRetry: 2, RollbackRetry: 2},
		simnet.Config{FragmentPct: 10, Reconnect: true, ReconnectAfter: 2 * time.Second, GettyOrder: plan.GettyOrder, Heartbeat: time.Duration(plan.HeartbeatMs) * time.Millisecond})
	sim, tc, net := w.Sim, w.TC, w.Net
	sim.Known = loadKnown("C19")
	tc.AutoP2 = false
	// connections that died without a word (loss kind "silent"): writes fail
	dead := map[int]bool{}
	announceFails := 0
	net.WriteHookFrame = func(sid int, f *simtc.Frame) error {
		if dead[sid] {
			return errors.New("simnet: write failed, connection is gone (injected)")
		}
		if announceFails > 0 && f.Body != nil && f.Body.Code == simtc.TRegTM {
			announceFails--
			return errors.New("simnet: write failed (injected)")
		}
		return nil
	}
	tcc.InitTCC()
	net.Open(TCAddr)
	sim.Run(func() bool { return tc.SessionIsTM(0) && sim.Enabled() == 0 })
	if plan.Servers == 2 {
		// a second coordinator of the cluster: every session must know the client
		// as TM and as RM of every resource, whichever session the balancer likes
		s2 := net.Open(c19Addrs[1])
		sim.Run(func() bool { return tc.SessionIsTM(s2.SimID()) && sim.Enabled() == 0 })
	}

	// register the resources (sends RegisterRM on the first session)
	nres := plan.Resources
	if nres < 1 {
		nres = 1
	}
	if nres > 4 {
		nres = 4
	}
	var acts []*c19Action
	var proxies []*tcc.TCCServiceProxy
	regDone := false
	if plan.RegLoss > 0 && plan.RegLoss <= nres {
		tc.Rules = append(tc.Rules, simtc.Rule{Code: simtc.TRegRM, Nth: tc.CountOf(simtc.TRegRM) + plan.RegLoss, Action: simtc.ActClose})
		sim.Fault("session-loss-during-registration")
	}
	sim.Go("register", func() {
		defer func() { recover(); regDone = true }()
		for i := 0; i < nres; i++ {
			a := &c19Action{name: fmt.Sprintf("c19-action-%d", i)}
			p, err := tcc.NewTCCServiceProxy(a)
			// a registration whose request died with the connection still leaves
			// the application with its proxy: the resource is the client's from then on
			if err == nil || (p != nil && plan.RegLoss == i+1) {
				acts = append(acts, a)
				proxies = append(proxies, p)
			}
		}
	})
	t0 := sim.Now()
	sim.Run(func() bool { return regDone || sim.Now()-t0 > 200*time.Second })
	tc.Rules = nil
	if plan.RegLoss > 0 {
		// the reconnect and the re-announcement
		tr := sim.Now()
		sim.Run(func() bool {
			for _, s := range net.Sessions() {
				if !s.IsClosed() && tc.SessionIsTM(s.SimID()) && sim.Enabled() == 0 && sim.Now()-tr > 10*time.Second {
					return true
				}
			}
			return sim.Now()-tr > 120*time.Second
		})
	}
	if !regDone || len(acts) != nres {
		sim.Violate("C19", "setup", "resource-registration-failed", "could not register %d TCC resources on a healthy session", nres)
		finishResult(res, sim)
		return
	}

	closeAll := func() {
		for _, s := range net.Sessions() {
			if !s.IsClosed() {
				net.CloseFromServer(s.SimID())
			}
		}
	}
	liveSession := func() *simnet.Session {
		for _, s := range net.Sessions() {
			if !s.IsClosed() {
				return s
			}
		}
		return nil
	}

	for li, loss := range plan.Losses {
		// a global transaction with one TCC branch per resource
		var xid string
		var gerr error
		gdone := false
		hold := make(chan struct{})
		inBusiness := false
		sim.Go("gtx", func() {
			defer func() { recover(); gdone = true }()
			gerr = tm.WithGlobalTx(context.Background(), &tm.GtxConfig{Name: fmt.Sprintf("c19-gtx-%d", li), Timeout: 60 * time.Second}, func(ctx context.Context) error {
				xid = tm.GetXID(ctx)
				for _, p := range proxies {
					if _, err := p.Prepare(ctx, &c19Params{A: "x"}); err != nil {
						return err
					}
				}
				inBusiness = true
				<-hold // phase one done; wait here ("between phase one and phase two")
				return nil
			})
		})
		t1 := sim.Now()
		sim.Run(func() bool { return inBusiness || gdone || sim.Now()-t1 > 200*time.Second })
		if !inBusiness {
			// phase one did not get through on a healthy, registered session
			close(hold)
			sim.Run(func() bool { return gdone })
			sim.Violate("C19", "begin-after-reconnect", "begin-failed-after-reconnect", "loss #%d: a new global transaction could not run its phase one on the re-established session: %v", li, gerr)
			break
		}
		g := tc.Globals[xid]
		before := map[int]bool{}
		for _, ls := range net.Sessions() {
			before[ls.SimID()] = true
		}
		sim.Fault("session-loss-" + loss)
		switch loss {
		case "between-phases":
			closeAll()
			sim.Run(func() bool { s := liveSession(); return s != nil && tc.SessionIsTM(s.SimID()) && sim.Enabled() == 0 })
			close(hold)
		case "inflight":
			// the commit request goes out, the connection dies before the reply
			tc.Rules = append(tc.Rules, simtc.Rule{Code: simtc.TGlobalCommit, Nth: tc.CountOf(simtc.TGlobalCommit) + 1, Action: simtc.ActClose})
			close(hold)
		default: // idle: finish the transaction first, then lose the connection
			close(hold)
		}
		t2 := sim.Now()
		sim.Run(func() bool { return gdone || sim.Now()-t2 > 300*time.Second })
		if !gdone {
			sim.Violate("C19", "termination", "gtx-stuck", "loss #%d (%s): WithGlobalTx never returned", li, loss)
			break
		}
		switch loss {
		case "idle":
			closeAll()
		case "silent":
			// no FIN, no RST: every write fails from now on; the client finds out
			// through its heart-beats and gives the session up itself
			for _, ls := range net.Sessions() {
				if !ls.IsClosed() {
					dead[ls.SimID()] = true
				}
			}
		case "announce-fail":
			// the connection is lost, and on its successor the client's first
			// announcement cannot be written: the client gives that session up
			// itself and the next one works
			announceFails = 1
			closeAll()
		}
		// wait for the new session and give the client time to announce itself
		t3 := sim.Now()
		sim.Run(func() bool {
			live := 0
			for _, ls := range net.Sessions() {
				if !ls.IsClosed() {
					live++
				}
			}
			want := 1
			if plan.Servers == 2 {
				want = 2
			}
			for _, ls := range net.Sessions() {
				if dead[ls.SimID()] && !ls.IsClosed() && sim.Now()-t3 <= 300*time.Second {
					return false // the client has not noticed yet
				}
			}
			return (live >= want && sim.Now()-t3 > 30*time.Second && sim.Enabled() == 0) || sim.Now()-t3 > 300*time.Second
		})
		if loss == "silent" {
			for _, ls := range net.Sessions() {
				if dead[ls.SimID()] && !ls.IsClosed() {
					sim.Violate("C19", "dead-session-released", "silent-session-kept", "loss #%d (silent): 300 s after every write on session s%d started to fail the client still keeps it", li, ls.SimID())
				}
			}
		}
		s := liveSession()
		res.Episodes++
		sim.State(fmt.Sprintf("!loss=%s policy=%s res=%d", loss, plan.Policy, nres))
		if s == nil {
			sim.Violate("C19", "setup", "no-reconnect", "harness: no session after reconnect interval")
			break
		}
		_ = s.SimID()
		var missing []string
		for _, ls := range net.Sessions() {
			if ls.IsClosed() || before[ls.SimID()] {
				continue // (the property speaks of re-established connections)
			}
			lsid := ls.SimID()
			if !tc.SessionIsTM(lsid) {
				sim.Violate("C19", "reannounce-tm", "no-register-tm", "loss #%d (%s): no RegisterTM on the new session s%d", li, loss, lsid)
			}
			have := map[string]bool{}
			for _, r := range tc.SessionResources(lsid) {
				have[r] = true
			}
			var miss []string
			for _, a := range acts {
				if !have[a.name] {
					miss = append(miss, a.name)
				}
			}
			if len(miss) > 0 {
				sim.Violate("C19", "reannounce-rm", "no-register-rm", "loss #%d (%s): the new session s%d was not registered as resource manager for %v (registered: %v)", li, loss, lsid, miss, tc.SessionResources(lsid))
				missing = miss
			}
		}
		// phase two for the earlier branches must reach the client (the model,
		// like the real TC, only routes to a session that registered the resource)
		if g != nil && len(missing) == 0 {
			answered := 0
			for _, b := range g.Branches {
				tc.SendBranchEnd(b, true, b.AppData, -1, func(status byte, ok bool) {
					if ok && status == simtc.BSPhaseTwoCommitted {
						answered++
					}
				})
			}
			t4 := sim.Now()
			sim.Run(func() bool { return answered == len(g.Branches) || sim.Now()-t4 > 60*time.Second })
			if answered != len(g.Branches) {
				sim.Violate("C19", "phase-two-after-reconnect", "phase-two-lost", "loss #%d (%s): %d of %d phase-two requests for earlier branches were answered", li, loss, answered, len(g.Branches))
			}
		}
		if len(sim.Violations()) > 0 {
			break
		}
	}
	res.Samples = append(res.Samples, map[string]any{"mode": "reconnect", "policy": plan.Policy, "resources": nres, "losses": plan.Losses})
	plan.Tape = tape.Rec
	finishResult(res, sim)
}

func init() { engines["C19"] = runC19 }
