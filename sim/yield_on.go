//go:build verifyield

package sim

import (
	"hash/fnv"
	"sync/atomic"
	"time"

	"seata.apache.org/seata-go/pkg/util/simyield"

	"verif/simkit"
)

// yieldBuilt: this binary was built from the copy of the client instrumented
// by cmd/yieldinst (scheduling points around the client's mutex operations).
const yieldBuilt = true

type yieldState struct {
	mu    simkit.QuietMutex
	seed  uint64
	count map[string]uint64
	fired int64
	sites map[string]bool
}

func yieldHash(seed uint64, site string, n uint64) uint64 {
	h := fnv.New64a()
	var b [16]byte
	for i := 0; i < 8; i++ {
		b[i] = byte(seed >> (8 * i))
		b[8+i] = byte(n >> (8 * i))
	}
	h.Write(b[:])
	h.Write([]byte(site))
	x := h.Sum64()
	x ^= x >> 29
	x *= 0xbf58476d1ce4e5b9
	x ^= x >> 32
	return x
}

// installYield arms the scheduling points for this run: a seed-chosen half of
// the sites is active, and an active site delays the calling goroutine by 1-3
// simulated milliseconds the first two times and then every other time it is
// reached (decided by the seed,
// the site and the count of visits, never by a clock or a shared generator).
func installYield(seed uint64) *yieldState {
	st := &yieldState{seed: seed, count: map[string]uint64{}, sites: map[string]bool{}}
	simyield.SetHook(func(site string) {
		if yieldHash(seed, site, 0)%2 != 0 {
			return
		}
		st.mu.Lock()
		st.count[site]++
		n := st.count[site]
		st.sites[site] = true
		st.mu.Unlock()
		x := yieldHash(seed, site, n)
		if n > 2 && x%2 != 0 {
			return // rarely reached sites (a periodic background pass) always delay
		}
		atomic.AddInt64(&st.fired, 1)
		time.Sleep(time.Duration(1+(x>>8)%3) * time.Millisecond)
	})
	return st
}

func (st *yieldState) stop() (fired int, sites int) {
	simyield.SetHook(nil)
	st.mu.Lock()
	defer st.mu.Unlock()
	return int(atomic.LoadInt64(&st.fired)), len(st.sites)
}
