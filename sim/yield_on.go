//go:build verifyield

package sim

import (
	"bytes"
	"fmt"
	"hash/fnv"
	"reflect"
	"runtime"
	"strconv"
	"strings"
	"sync/atomic"
	"time"

	"seata.apache.org/seata-go/pkg/util/simyield"

	"verif/simkit"
)

// yieldBuilt: this binary was built from the copy of the client instrumented
// by cmd/yieldinst (scheduling points around the client's mutex, atomic and
// sync.Map operations).
const yieldBuilt = true

type yieldState struct {
	mu    simkit.QuietMutex
	seed  uint64
	count map[string]uint64
	fired int64
	sites map[string]bool
	// held: mutexes the goroutine holds by the instrumenter's count; a
	// goroutine is only delayed / parked while it holds none, because a
	// goroutine waiting for a mutex inside the bubble is not durably blocked
	// (the fake clock and the scheduler's quiescence would wait for it)
	held map[uint64]int
	// sched: the scheduler's own goroutine (client code it runs inline, e.g.
	// a close listener, must never wait for the scheduler)
	sched uint64
	// recursive: second read locks of a mutex the goroutine already read-holds
	recursive int
	// recursiveMet: ... of which a writer arrived while the reader waited
	recursiveMet int
	// windowsMet: rare writers that found a goroutine in the window after its unlock
	windowsMet int
}

func yieldHash(seed uint64, site string, n uint64) uint64 {
	h := fnv.New64a()
	var b [16]byte
	for i := 0; i < 8; i++ {
		b[i] = byte(seed >> (8 * i))
		b[8+i] = byte(n >> (8 * i))
	}
	h.Write(b[:])
	h.Write([]byte(site))
	x := h.Sum64()
	x ^= x >> 29
	x *= 0xbf58476d1ce4e5b9
	x ^= x >> 32
	return x
}

func goid() uint64 {
	var buf [64]byte
	b := buf[:runtime.Stack(buf[:], false)]
	b = bytes.TrimPrefix(b, []byte("goroutine "))
	if i := bytes.IndexByte(b, ' '); i > 0 {
		n, _ := strconv.ParseUint(string(b[:i]), 10, 64)
		return n
	}
	return 0
}

// visit does the bookkeeping of one scheduling point and reports whether the
// goroutine should give way here, and the visit number of the site.
func (st *yieldState) visit(site string) (yield bool, n uint64) {
	kind := site[strings.LastIndexByte(site, ':')+1:]
	g := goid()
	st.mu.Lock()
	defer st.mu.Unlock()
	if g == st.sched {
		return false, 0
	}
	switch kind {
	case "after-lock", "after-rlock":
		st.held[g]++
		return false, 0
	case "after-unlock", "after-runlock":
		if st.held[g] > 0 {
			st.held[g]--
		}
		if st.held[g] == 0 {
			delete(st.held, g)
		}
	}
	if st.held[g] > 0 {
		return false, 0
	}
	if yieldHash(st.seed, site, 0)%2 != 0 {
		return false, 0 // site not active in this run
	}
	st.count[site]++
	n = st.count[site]
	st.sites[site] = true
	return true, n
}

// installYield arms the scheduling points for a free-running engine (C20): a
// seed-chosen half of the sites is active, and an active site delays the
// calling goroutine by 1-3 simulated milliseconds the first two times and then
// every other time it is reached (decided by the seed, the site and the count
// of visits, never by a clock or a shared generator).
// activeYield: the scheduling-point state of the run (for the lock-up observer)
var activeYield atomic.Pointer[yieldState]

// heldByGoroutine: how many client mutexes goroutine id holds by the
// instrumenter's count; known is false when the run has no such count.
func heldByGoroutine(id uint64) (n int, known bool) {
	st := activeYield.Load()
	if st == nil {
		return 0, false
	}
	st.mu.Lock()
	defer st.mu.Unlock()
	return st.held[id], true
}

func installYield(seed uint64) *yieldState {
	st := &yieldState{seed: seed, count: map[string]uint64{}, sites: map[string]bool{}, held: map[uint64]int{}}
	activeYield.Store(st)
	decide := func(site string) time.Duration {
		ok, n := st.visit(site)
		if !ok {
			return 0
		}
		x := yieldHash(seed, site, n)
		if n > 2 && x%2 != 0 {
			return 0 // rarely reached sites (a periodic background pass) always delay
		}
		return time.Duration(1+(x>>8)%3) * time.Millisecond
	}
	plain := func(site string) {
		if d := decide(site); d > 0 {
			atomic.AddInt64(&st.fired, 1)
			time.Sleep(d)
		}
	}
	simyield.SetHook(plain)
	// Read locks taken twice. A goroutine that holds a read lock and asks for
	// it again deadlocks as soon as a writer has queued up in between (Go's
	// RWMutex lets no new reader pass a waiting writer). The window is a few
	// instructions wide, so the run would have to be very lucky; the simulator
	// knows both ends of it and schedules it: the reader waits at its second
	// RLock (holding the first) until some goroutine arrives at Lock of the
	// same mutex, or for 300 simulated milliseconds. If the client then stops
	// for good, the lock-up observer reports it with the stacks.
	var rmu simkit.QuietMutex
	rheld := map[uint64]map[uintptr]int{}    // goroutine -> mutex -> read locks held
	waiting := map[uintptr][]chan struct{}{} // mutex -> readers waiting for a writer
	// "Used after unlock". A goroutine delayed right after it released mutex M
	// sits in the window in which it may still use what M protects. A writer
	// that comes by rarely (a periodic background pass: its Lock site has been
	// visited at most three times) waits at its Lock, up to 20 simulated
	// milliseconds, for some goroutine to be in that window of the same mutex,
	// so that its critical section runs inside it.
	inWindow := map[uintptr]int{}
	wantWindow := map[uintptr][]chan struct{}{}
	lockVisits := map[string]int{}
	simyield.SetHookM(func(site string, mu any) {
		kind := site[strings.LastIndexByte(site, ':')+1:]
		id := mutexID(mu)
		if id != 0 {
			g := goid()
			switch kind {
			case "before-rlock":
				rmu.Lock()
				again := rheld[g][id] > 0
				var ch chan struct{}
				if again {
					ch = make(chan struct{}, 1)
					waiting[id] = append(waiting[id], ch)
				}
				rmu.Unlock()
				if again {
					st.mu.Lock()
					st.recursive++
					st.mu.Unlock()
					select {
					case <-ch:
						// let the writer reach its Lock first
						for i := 0; i < 2000; i++ {
							runtime.Gosched()
						}
						st.mu.Lock()
						st.recursiveMet++
						st.mu.Unlock()
					case <-time.After(300 * time.Millisecond):
					}
					rmu.Lock()
					w := waiting[id]
					for i := range w {
						if w[i] == ch {
							waiting[id] = append(w[:i:i], w[i+1:]...)
							break
						}
					}
					rmu.Unlock()
					return
				}
			case "after-rlock":
				rmu.Lock()
				if rheld[g] == nil {
					rheld[g] = map[uintptr]int{}
				}
				rheld[g][id]++
				rmu.Unlock()
			case "after-unlock", "after-runlock":
				if kind == "after-runlock" {
					rmu.Lock()
					if rheld[g][id] > 0 {
						rheld[g][id]--
						if rheld[g][id] == 0 {
							delete(rheld[g], id)
						}
						if len(rheld[g]) == 0 {
							delete(rheld, g)
						}
					}
					rmu.Unlock()
				}
				if d := decide(site); d > 0 {
					atomic.AddInt64(&st.fired, 1)
					rmu.Lock()
					inWindow[id]++
					for _, ch := range wantWindow[id] {
						select {
						case ch <- struct{}{}:
						default:
						}
					}
					rmu.Unlock()
					time.Sleep(d)
					rmu.Lock()
					inWindow[id]--
					rmu.Unlock()
				}
				return
			case "before-lock":
				rmu.Lock()
				lockVisits[site]++
				rare := lockVisits[site] <= 3
				var wch chan struct{}
				if rare && inWindow[id] == 0 {
					wch = make(chan struct{}, 1)
					wantWindow[id] = append(wantWindow[id], wch)
				}
				rmu.Unlock()
				if n, known := heldByGoroutine(g); wch != nil && known && n == 0 {
					select {
					case <-wch:
						st.mu.Lock()
						st.windowsMet++
						st.mu.Unlock()
					case <-time.After(20 * time.Millisecond):
					}
				} else {
					// (after the point's own delay: the next thing this goroutine does
					// is to ask for the write lock)
					plain(site)
				}
				if wch != nil {
					rmu.Lock()
					ws := wantWindow[id]
					for i := range ws {
						if ws[i] == wch {
							wantWindow[id] = append(ws[:i:i], ws[i+1:]...)
							break
						}
					}
					rmu.Unlock()
				}
				rmu.Lock()
				for _, ch := range waiting[id] {
					select {
					case ch <- struct{}{}:
					default:
					}
				}
				rmu.Unlock()
				return
			}
		}
		plain(site)
	})
	return st
}

// mutexID: the identity of the mutex an instrumented statement works on. mu is
// the address of the expression the method was called on: a pointer variable
// (the object it points to counts), or a mutex / a struct embedding one.
func mutexID(mu any) uintptr {
	rv := reflect.ValueOf(mu)
	if rv.Kind() != reflect.Ptr || rv.IsNil() {
		return 0
	}
	e := rv.Elem()
	for e.Kind() == reflect.Interface && !e.IsNil() {
		e = e.Elem()
	}
	if e.Kind() == reflect.Ptr {
		if e.IsNil() {
			return 0
		}
		return e.Pointer()
	}
	return rv.Pointer()
}

// installYieldParked arms the scheduling points for an engine whose goroutines
// run one at a time under the seeded scheduler: at an active site the
// goroutine parks (every other visit) and the scheduler decides, from the
// run's tape, when it goes on - so two client goroutines can be interleaved
// between any two synchronisation operations, not only at messages and
// statements.
func installYieldParked(sim *simkit.Sim, seed uint64) *yieldState {
	st := &yieldState{seed: seed, count: map[string]uint64{}, sites: map[string]bool{}, held: map[uint64]int{}, sched: goid()}
	simyield.SetHook(func(site string) {
		ok, n := st.visit(site)
		if !ok {
			return
		}
		if yieldHash(seed, site, n)%2 != 0 {
			return
		}
		atomic.AddInt64(&st.fired, 1)
		sim.Park(fmt.Sprintf("yield|%s|%06d", site, n), "")
	})
	return st
}

func (st *yieldState) stop() (fired int, sites int) {
	simyield.SetHook(nil)
	simyield.SetHookM(nil)
	st.mu.Lock()
	defer st.mu.Unlock()
	return int(atomic.LoadInt64(&st.fired)), len(st.sites)
}

func (st *yieldState) recursiveReadLocks() (n, metWriter int) {
	st.mu.Lock()
	defer st.mu.Unlock()
	return st.recursive, st.recursiveMet
}

func (st *yieldState) windows() int {
	st.mu.Lock()
	defer st.mu.Unlock()
	return st.windowsMet
}
