//go:build verifyield

package sim

import (
	"bytes"
	"fmt"
	"hash/fnv"
	"runtime"
	"strconv"
	"strings"
	"sync/atomic"
	"time"

	"seata.apache.org/seata-go/pkg/util/simyield"

	"verif/simkit"
)

// yieldBuilt: this binary was built from the copy of the client instrumented
// by cmd/yieldinst (scheduling points around the client's mutex, atomic and
// sync.Map operations).
const yieldBuilt = true

type yieldState struct {
	mu    simkit.QuietMutex
	seed  uint64
	count map[string]uint64
	fired int64
	sites map[string]bool
	// held: mutexes the goroutine holds by the instrumenter's count; a
	// goroutine is only delayed / parked while it holds none, because a
	// goroutine waiting for a mutex inside the bubble is not durably blocked
	// (the fake clock and the scheduler's quiescence would wait for it)
	held map[uint64]int
	// sched: the scheduler's own goroutine (client code it runs inline, e.g.
	// a close listener, must never wait for the scheduler)
	sched uint64
}

func yieldHash(seed uint64, site string, n uint64) uint64 {
	h := fnv.New64a()
	var b [16]byte
	for i := 0; i < 8; i++ {
		b[i] = byte(seed >> (8 * i))
		b[8+i] = byte(n >> (8 * i))
	}
	h.Write(b[:])
	h.Write([]byte(site))
	x := h.Sum64()
	x ^= x >> 29
	x *= 0xbf58476d1ce4e5b9
	x ^= x >> 32
	return x
}

func goid() uint64 {
	var buf [64]byte
	b := buf[:runtime.Stack(buf[:], false)]
	b = bytes.TrimPrefix(b, []byte("goroutine "))
	if i := bytes.IndexByte(b, ' '); i > 0 {
		n, _ := strconv.ParseUint(string(b[:i]), 10, 64)
		return n
	}
	return 0
}

// visit does the bookkeeping of one scheduling point and reports whether the
// goroutine should give way here, and the visit number of the site.
func (st *yieldState) visit(site string) (yield bool, n uint64) {
	kind := site[strings.LastIndexByte(site, ':')+1:]
	g := goid()
	st.mu.Lock()
	defer st.mu.Unlock()
	if g == st.sched {
		return false, 0
	}
	switch kind {
	case "after-lock":
		st.held[g]++
		return false, 0
	case "after-unlock":
		if st.held[g] > 0 {
			st.held[g]--
		}
		if st.held[g] == 0 {
			delete(st.held, g)
		}
	}
	if st.held[g] > 0 {
		return false, 0
	}
	if yieldHash(st.seed, site, 0)%2 != 0 {
		return false, 0 // site not active in this run
	}
	st.count[site]++
	n = st.count[site]
	st.sites[site] = true
	return true, n
}

// installYield arms the scheduling points for a free-running engine (C20): a
// seed-chosen half of the sites is active, and an active site delays the
// calling goroutine by 1-3 simulated milliseconds the first two times and then
// every other time it is reached (decided by the seed, the site and the count
// of visits, never by a clock or a shared generator).
func installYield(seed uint64) *yieldState {
	st := &yieldState{seed: seed, count: map[string]uint64{}, sites: map[string]bool{}, held: map[uint64]int{}}
	simyield.SetHook(func(site string) {
		ok, n := st.visit(site)
		if !ok {
			return
		}
		x := yieldHash(seed, site, n)
		if n > 2 && x%2 != 0 {
			return // rarely reached sites (a periodic background pass) always delay
		}
		atomic.AddInt64(&st.fired, 1)
		time.Sleep(time.Duration(1+(x>>8)%3) * time.Millisecond)
	})
	return st
}

// installYieldParked arms the scheduling points for an engine whose goroutines
// run one at a time under the seeded scheduler: at an active site the
// goroutine parks (every other visit) and the scheduler decides, from the
// run's tape, when it goes on - so two client goroutines can be interleaved
// between any two synchronisation operations, not only at messages and
// statements.
func installYieldParked(sim *simkit.Sim, seed uint64) *yieldState {
	st := &yieldState{seed: seed, count: map[string]uint64{}, sites: map[string]bool{}, held: map[uint64]int{}, sched: goid()}
	simyield.SetHook(func(site string) {
		ok, n := st.visit(site)
		if !ok {
			return
		}
		if yieldHash(seed, site, n)%2 != 0 {
			return
		}
		atomic.AddInt64(&st.fired, 1)
		sim.Park(fmt.Sprintf("yield|%s|%06d", site, n), "")
	})
	return st
}

func (st *yieldState) stop() (fired int, sites int) {
	simyield.SetHook(nil)
	st.mu.Lock()
	defer st.mu.Unlock()
	return int(atomic.LoadInt64(&st.fired)), len(st.sites)
}
