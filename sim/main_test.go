package sim

import "testing"

func TestSim(t *testing.T) { RunSim(t) }
