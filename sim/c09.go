package sim

import (
	"encoding/json"
	"fmt"
	"regexp"
	"seata.apache.org/seata-go/pkg/datasource/sql/types"
	"sort"
	"strconv"
	"strings"
	"testing"
	"time"

	"verif/simdb"
	"verif/simkit"
	"verif/simtc"
)

// C09 — branch rollback never overwrites a foreign write (data validation on).
// After the local commits a foreign writer (bare connection, no global
// transaction) touches rows the branch wrote; then the coordinator rolls back.

type foreignAct struct {
	Kind string `json:"kind"` // change-written | change-unwritten | delete | reinsert | restore-before | none | some
	Pick int    `json:"pick"`
}

// materialiseForeign turns the abstract foreign actions of an episode into SQL
// using the write sets of the local transactions committed so far.
func (r *atRun) materialiseForeign(jstart int, acts []foreignAct, g *simkit.Gen) []ATStmt {
	w := r.w
	var writes []simdb.RowWrite
	for _, t := range splitLocalTxns(w.Srv.JournalFrom(jstart)) {
		if t.committed && t.undoIns != nil {
			writes = append(writes, appWrites(t.writes)...)
		}
	}
	if len(writes) == 0 {
		return nil
	}
	sort.Slice(writes, func(i, j int) bool { return writes[i].Table+writes[i].Key < writes[j].Table+writes[j].Key })
	var out []ATStmt
	for _, a := range acts {
		wr := writes[((a.Pick%len(writes))+len(writes))%len(writes)]
		tname := wr.Table[strings.LastIndex(wr.Table, ".")+1:]
		tab := w.Srv.Table(atSchema, tname)
		if tab == nil {
			continue
		}
		row := wr.After
		if row == nil {
			row = wr.Before
		}
		var whereParts []string
		var whereArgs []Val
		for _, pi := range tab.PKIdx() {
			whereParts = append(whereParts, tab.Columns()[pi].Name+" = ?")
			whereArgs = append(whereArgs, valOf(row[pi]))
		}
		where := strings.Join(whereParts, " AND ")
		changed := func(i int) bool {
			return wr.Before == nil || wr.After == nil || !simdb.Equal(wr.Before[i], wr.After[i])
		}
		isPK := func(i int) bool {
			for _, pi := range tab.PKIdx() {
				if pi == i {
					return true
				}
			}
			return false
		}
		pickCol := func(wantChanged bool) int {
			for i := range tab.Columns() {
				if !isPK(i) && changed(i) == wantChanged {
					return i
				}
			}
			return -1
		}
		newVal := func(i int) Val {
			c := tab.Columns()[i]
			// a near miss for text columns: another spelling of the number the
			// column holds now (differs as text, equal when compared as numbers)
			if strings.Contains(c.DataType, "char") || strings.Contains(c.DataType, "text") {
				if tw, ok := numericTwin(row[i]); ok {
					w.Sim.Probe("c09-foreign-write-numeric-twin")
					return VS(tw)
				}
			}
			// a near miss for DOUBLE columns: a value that differs from the current
			// one only beyond single precision
			if c.DataType == "double" {
				if f, ok := row[i].(float64); ok && f != 0 && float64(float32(f)) == f {
					for _, d := range []float64{1e-9, 1e-7, 1e-5} {
						g2 := f * (1 + d)
						if g2 != f && float32(g2) == float32(f) {
							w.Sim.Probe("c09-foreign-write-float32-twin")
							return VF(g2)
						}
					}
				}
			}
			// a near miss for temporal columns with fractional seconds: the same
			// second, another fraction (two writers stamping NOW(3) one after the other)
			if (c.DataType == "datetime" || c.DataType == "timestamp") && c.Scale >= 3 {
				if tv, ok := row[i].(time.Time); ok {
					tw := tv.Add(7 * time.Millisecond)
					if tw.Unix() != tv.Unix() {
						tw = tv.Add(-7 * time.Millisecond)
					}
					if tw.Unix() == tv.Unix() {
						w.Sim.Probe("c09-foreign-write-same-second-twin")
						return VS(tw.UTC().Format("2006-01-02 15:04:05.000"))
					}
				}
			}
			switch {
			case strings.Contains(c.DataType, "int"):
				return VI(777001)
			case c.DataType == "decimal", c.DataType == "double", c.DataType == "float":
				return VS("4242.25")
			case strings.Contains(c.DataType, "date") || strings.Contains(c.DataType, "time"):
				return VS("2031-03-04 05:06:07")
			case strings.Contains(c.DataType, "blob") || strings.Contains(c.DataType, "binary"):
				return VB([]byte("foreign"))
			}
			return VS("foreign-writer")
		}
		switch a.Kind {
		case "change-written", "some":
			if wr.After == nil {
				continue // row is deleted now: see reinsert
			}
			if i := pickCol(true); i >= 0 {
				out = append(out, ATStmt{Kind: "foreign-" + a.Kind, SQL: fmt.Sprintf("UPDATE %s SET %s = ? WHERE %s", tname, tab.Columns()[i].Name, where), Args: append([]Val{newVal(i)}, whereArgs...)})
			}
		case "change-unwritten":
			if wr.After == nil {
				continue
			}
			if i := pickCol(false); i >= 0 {
				out = append(out, ATStmt{Kind: "foreign-" + a.Kind, SQL: fmt.Sprintf("UPDATE %s SET %s = ? WHERE %s", tname, tab.Columns()[i].Name, where), Args: append([]Val{newVal(i)}, whereArgs...)})
			}
		case "delete":
			if wr.After != nil {
				out = append(out, ATStmt{Kind: "foreign-delete", SQL: fmt.Sprintf("DELETE FROM %s WHERE %s", tname, where), Args: whereArgs})
			}
		case "reinsert":
			if wr.After == nil && wr.Before != nil {
				var names, qs []string
				var args []Val
				for i, c := range tab.Columns() {
					names = append(names, c.Name)
					qs = append(qs, "?")
					v := wr.Before[i]
					if !isPK(i) && g.Bool() {
						args = append(args, newVal(i))
					} else {
						args = append(args, valOf(v))
					}
				}
				out = append(out, ATStmt{Kind: "foreign-reinsert", SQL: fmt.Sprintf("INSERT INTO %s (%s) VALUES (%s)", tname, strings.Join(names, ", "), strings.Join(qs, ", ")), Args: args})
			}
		case "restore-before":
			switch {
			case wr.Before == nil && wr.After != nil:
				out = append(out, ATStmt{Kind: "foreign-restore", SQL: fmt.Sprintf("DELETE FROM %s WHERE %s", tname, where), Args: whereArgs})
			case wr.Before != nil && wr.After != nil:
				var sets []string
				var args []Val
				for i, c := range tab.Columns() {
					if !isPK(i) && changed(i) {
						sets = append(sets, c.Name+" = ?")
						args = append(args, valOf(wr.Before[i]))
					}
				}
				if len(sets) > 0 {
					out = append(out, ATStmt{Kind: "foreign-restore", SQL: fmt.Sprintf("UPDATE %s SET %s WHERE %s", tname, strings.Join(sets, ", "), where), Args: append(args, whereArgs...)})
				}
			}
		}
	}
	return out
}

// checkC09Race judges an episode whose foreign writer ran concurrently with
// phase two. The rollback transaction checks the current rows and then writes
// them; the check must keep every row it is going to write locked until its
// commit, so no foreign write to such a row may become effective between the
// check and the compensating write of a rollback transaction that commits.
func (r *atRun) checkC09Race(o *episodeObs) {
	w := r.w
	j := w.Srv.JournalFrom(o.jstart)
	foreignSQL := map[string]bool{}
	for _, st := range o.foreign {
		foreignSQL[st.SQL] = true
	}
	type fw struct {
		seq uint64
		wr  simdb.RowWrite
		sql string
	}
	var fws []fw
	for _, e := range j {
		if e.Err != "" || !foreignSQL[e.SQL] {
			continue
		}
		for _, wr := range appWrites(e.Writes) {
			fws = append(fws, fw{e.Seq, wr, e.SQL})
		}
	}
	if len(fws) == 0 {
		return
	}
	w.Sim.Probe("c09-foreign-writer-raced-phase-two")
	for _, t := range splitLocalTxns(j) {
		if !t.committed {
			continue
		}
		isP2 := false
		for _, e := range t.entries {
			if e.Class == "select-for-update-undo" {
				isP2 = true
			}
		}
		if !isP2 {
			continue
		}
		// every undo item reads the current rows of its table and then writes them:
		// the read that covers a compensating statement is the last one on that
		// table before it
		checked := map[string]uint64{}
		for _, e := range t.entries {
			if e.Err != "" {
				continue
			}
			if e.Kind == "QUERY" && e.Class != "select-for-update-undo" {
				up := strings.ToUpper(e.SQL)
				if i := strings.Index(up, " FROM "); i >= 0 {
					rest := strings.Fields(e.SQL[i+6:])
					if len(rest) > 0 {
						checked[strings.ToLower(strings.Trim(rest[0], "`"))] = e.Seq
					}
				}
				continue
			}
			for _, cw := range appWrites(e.StmtWrites) {
				tn := strings.ToLower(cw.Table[strings.LastIndex(cw.Table, ".")+1:])
				v, ok := checked[tn]
				if !ok {
					continue
				}
				for _, f := range fws {
					if f.wr.Table == cw.Table && f.wr.Key == cw.Key && f.seq > v && f.seq < e.Seq {
						w.Sim.Probe("c09-foreign-write-between-check-and-compensation")
						r.violate("C09", "rollback-keeps-foreign-write", "foreign-write-overwritten-in-flight", "episode %d: the foreign statement %q changed row %s[%s] at seq %d, after the rollback transaction on c%d had checked the table (seq %d) and before its compensating statement %q (seq %d); the rollback committed", o.idx, f.sql, cw.Table, cw.Key, f.seq, t.conn, v, e.SQL, e.Seq)
						return
					}
				}
			}
		}
	}
}

// numericTwin: for a text value that reads as a number, a different text that
// reads as the same float64 ("1.10" -> "1.100", "007" -> "0007", 19 digits ->
// last digit changed).
func numericTwin(v interface{}) (string, bool) {
	var s string
	switch x := v.(type) {
	case string:
		s = x
	case []byte:
		s = string(x)
	default:
		return "", false
	}
	if s == "" || strings.TrimSpace(s) != s {
		return "", false
	}
	f, err := strconv.ParseFloat(s, 64)
	if err != nil {
		return "", false
	}
	var tw string
	switch {
	case len(s) >= 17 && strings.Trim(s, "0123456789") == "":
		last := s[len(s)-1]
		nl := byte('0' + (last-'0'+1)%10)
		tw = s[:len(s)-1] + string(nl)
	case strings.Contains(s, ".") && !strings.ContainsAny(s, "eE"):
		tw = s + "0"
	default:
		tw = "0" + s
	}
	if g, err := strconv.ParseFloat(tw, 64); err != nil || g != f || tw == s {
		return "", false
	}
	return tw, true
}

func valOf(v interface{}) Val {
	switch x := v.(type) {
	case nil:
		return VN()
	case int64:
		return VI(x)
	case uint64:
		return Val{"u", fmt.Sprint(x)}
	case float32:
		return VF(float64(x))
	case float64:
		return VF(x)
	case string:
		return VS(x)
	case []byte:
		return VB(x)
	}
	if t, ok := v.(interface{ Format(string) string }); ok {
		return VS(t.Format("2006-01-02 15:04:05.000000"))
	}
	return VS(fmt.Sprint(v))
}

type C09Episode struct {
	ATEpisode
	Acts []foreignAct `json:"acts"`
}

func genC09Plan(seed uint64, tier string) *ATPlan {
	// a secondary unique index couples the branches of one global transaction
	// (an earlier branch cannot put a value back while a later, not yet rolled
	// back one holds it): the per-branch reference model does not cover that
	p := genATPlanTweaked(seed, tier, "rollback", func(g *simkit.Gen, o *GenOpts) {
		o.UniqueIndex = false
		if seed%8 == 5 {
			// no draw: the other runs stay what they were. Two rows whose composite key
			// values read the same when written one after the other, changed by one
			// statement; the foreign writer then changes one of them (C09-i)
			o.CollidingKeys, o.MultiRow = true, true
			o.PKKinds = []string{"comp"}
			o.WhereForms = []string{"nonpk", "or", "in", "between"}
		}
	})
	p.Cfg.DataValidation = true
	// the query that reads the current rows for the comparison may itself fail
	// (lock wait timeout behind the foreign writer): the delivery must fail then,
	// the coordinator model delivers the rollback again
	g := simkit.NewGen(seed ^ 0xc09f)
	for i := range p.Episodes {
		if g.Prob(0.2) {
			p.Episodes[i].P2Faults = []DBFault{{Class: "select-for-update", Nth: g.Range(1, 2), Kind: "error", Num: 1205}}
		}
	}
	return p
}

func runC09(t *testing.T, seed uint64, planJSON []byte, tier string) (res *Result) {
	res = &Result{}
	var plan *ATPlan
	var tape *simkit.Tape
	var acts [][]foreignAct
	if planJSON != nil {
		plan, tape = loadATPlan(seed, planJSON, tier, "rollback", res)
		if plan == nil {
			return res
		}
	} else {
		plan = genC09Plan(seed, tier)
		tape = simkit.NewTape(seed)
	}
	g := simkit.NewGen(seed ^ 0x9090)
	kinds := []string{"change-written", "change-written", "change-unwritten", "delete", "reinsert", "restore-before", "none", "some"}
	for range plan.Episodes {
		var a []foreignAct
		n := 1
		if g.Prob(0.25) {
			n = 2
		}
		for i := 0; i < n; i++ {
			a = append(a, foreignAct{Kind: simkit.Pick(g, kinds), Pick: g.Intn(100)})
		}
		acts = append(acts, a)
	}
	res.Harness = runBubbleP(t, plan, func(t *testing.T) {
		r := setupAT(seed, tape, plan, "C09", res)
		if r == nil {
			return
		}
		sim := r.w.Sim
		for i := range plan.Episodes {
			ep := &plan.Episodes[i]
			replayForeign := planJSON != nil
			if !replayForeign {
				ep.Foreign = nil
				ep.RaceForeign = g.Prob(0.3)
				idx := i
				r.foreignGen = func(jstart int) []ATStmt { return r.materialiseForeign(jstart, acts[idx], g) }
			} else {
				fixed := ep.Foreign
				r.foreignGen = func(int) []ATStmt { return fixed }
			}
			o := r.runEpisode(i, ep)
			if o == nil {
				break
			}
			ep.Foreign = o.foreign
			r.checkPhaseOne(o)
			r.checkC09(o)
			r.recordState(o)
			if len(sim.Violations()) > 0 || !o.done {
				break
			}
		}
		plan.Tape = tape.Rec
		finishResult(res, sim)
	})
	res.Plan, _ = json.Marshal(plan)
	res.Components = atComponents
	return res
}

// checkC09 judges each branch of a rolled-back episode with a small reference
// model of the property: the branch's undo items (one per statement and row
// kind) are visited newest first over the state the rollback found; an item
// whose rows all equal its after image is restored, one whose rows all equal
// its before image is skipped, one with a row that equals neither makes the
// rollback fail with nothing written. Items whose rows are partly restored and
// partly not (no row differing from both) are not covered by the property and
// end the judgement of the branch.
func (r *atRun) checkC09(o *episodeObs) {
	w := r.w
	g := w.TC.Globals[o.xid]
	if g == nil || !o.done {
		return
	}
	if o.ep.RaceForeign {
		r.checkC09Race(o)
		return
	}
	j := w.Srv.JournalFrom(o.jstart)
	txns := splitLocalTxns(j)
	foreignKinds := map[string]bool{}
	for _, st := range o.foreign {
		foreignKinds[st.Kind] = true
	}
	fk := keysOf(foreignKinds)
	for _, b := range g.Branches {
		var mine *localTxn
		for _, t := range txns {
			if t.committed && t.undoIns != nil {
				if bid, ok := argInt(t.undoIns.Args[0]); ok && bid == b.ID {
					mine = t
				}
			}
		}
		if mine == nil {
			continue
		}
		var p2 []*localTxn
		for _, t := range txns {
			for _, e := range t.entries {
				if e.Class == "select-for-update-undo" && len(e.Args) > 0 {
					if bid, ok := argInt(e.Args[0]); ok && bid == b.ID {
						p2 = append(p2, t)
						break
					}
				}
			}
		}
		if len(p2) == 0 {
			continue
		}
		cur := rollForward(o.beforeP2, j, o.jP2-o.jstart, p2[0].first)
		// undo items
		type item struct {
			kind string
			rows []simdb.RowWrite
			cols map[string]bool // recorded columns (nil = all)
		}
		var items []item
		for _, e := range mine.entries {
			ws := appWrites(e.StmtWrites)
			if len(ws) == 0 || e.Err != "" {
				continue
			}
			by := map[string][]simdb.RowWrite{}
			for _, wr := range ws {
				k := "update"
				if wr.Before == nil {
					k = "insert"
				} else if wr.After == nil {
					k = "delete"
				}
				by[k] = append(by[k], wr)
			}
			for _, k := range []string{"insert", "update", "delete"} {
				if len(by[k]) == 0 {
					continue
				}
				it := item{kind: k, rows: by[k]}
				if k == "update" && r.plan.Cfg.OnlyUpdateCols && strings.HasPrefix(strings.ToUpper(strings.TrimSpace(e.SQL)), "UPDATE") {
					it.cols = setColumns(e.SQL)
				}
				items = append(items, it)
			}
		}
		if len(items) == 0 {
			continue
		}
		// a foreign write to a row this branch matched without changing it: the
		// row is in the client's images (and under its global lock) although the
		// database recorded no write; whether that is "a row it wrote" is not ours
		// to say, so the branch is not judged
		imageKeys := map[string]int{} // number of undo items whose images hold the row
		for _, fl := range r.flush {
			if fl.Xid != o.xid || int64(fl.BranchID) != b.ID {
				continue
			}
			for _, it := range fl.Logs {
				tab := w.Srv.Table(atSchema, it.TableName)
				if tab == nil {
					continue
				}
				inItem := map[string]bool{}
				for _, img := range []*types.RecordImage{it.BeforeImage, it.AfterImage} {
					if img == nil {
						continue
					}
					for _, row := range img.Rows {
						inItem[strings.ToLower(it.TableName)+"|"+imagePK(tab, row)] = true
					}
				}
				for k := range inItem {
					imageKeys[k]++
				}
			}
		}
		changedKeys := map[string]int{} // number of statements (and row kinds) that changed the row
		for _, it := range items {
			seenIt := map[string]bool{}
			for _, wr := range it.rows {
				tname := wr.Table[strings.LastIndex(wr.Table, ".")+1:]
				tab := w.Srv.Table(atSchema, tname)
				row := wr.After
				if row == nil {
					row = wr.Before
				}
				if tab != nil {
					if k := strings.ToLower(tname) + "|" + pkTextOfRow(tab, row); !seenIt[k] {
						seenIt[k] = true
						changedKeys[k]++
					}
				}
			}
		}
		foreignSQL := map[string]bool{}
		for _, st := range o.foreign {
			foreignSQL[st.SQL] = true
		}
		outside := false
		for k := 0; k < o.jP2-o.jstart && k < len(j); k++ {
			e := j[k]
			if !foreignSQL[e.SQL] || e.InTxn {
				continue
			}
			for _, wr := range appWrites(e.Writes) {
				tname := wr.Table[strings.LastIndex(wr.Table, ".")+1:]
				tab := w.Srv.Table(atSchema, tname)
				row := wr.After
				if row == nil {
					row = wr.Before
				}
				if tab == nil {
					continue
				}
				key := strings.ToLower(tname) + "|" + pkTextOfRow(tab, row)
				// in more undo items than statements changed it: some statement
				// matched the row without changing it
				if imageKeys[key] > changedKeys[key] {
					outside = true
				}
			}
		}
		if outside {
			w.Sim.Probe("c09-foreign-write-to-matched-unchanged-row-unjudged")
			continue
		}
		verdict := "rollbacked"
		var dirtyRow simdb.RowWrite
		kinds := map[string]bool{}
		restored := false
	model:
		for i := len(items) - 1; i >= 0; i-- {
			it := items[i]
			kinds[it.kind] = true
			allAfter, allBefore := true, true
			for _, wr := range it.rows {
				tab := w.Srv.Table(atSchema, wr.Table[strings.LastIndex(wr.Table, ".")+1:])
				if tab == nil {
					verdict = "unjudged"
					break model
				}
				c := cur[wr.Table][wr.Key]
				ea := recordedEqual(tab, it.cols, c, wr.After)
				eb := recordedEqual(tab, it.cols, c, wr.Before)
				if !ea {
					allAfter = false
				}
				if !eb {
					allBefore = false
				}
				if !ea && !eb {
					verdict = "dirty"
					dirtyRow = wr
					break model
				}
			}
			switch {
			case allAfter && allBefore:
				// the statement changed nothing that is recorded
			case allAfter:
				restored = true
				for _, wr := range it.rows {
					tab := w.Srv.Table(atSchema, wr.Table[strings.LastIndex(wr.Table, ".")+1:])
					applyRestore(cur, tab, it.cols, wr)
				}
			case allBefore:
			default:
				verdict = "unjudged"
				break model
			}
		}
		feat := "-" + strings.Join(keysOf(kinds), "+") + epFeatures(o.ep)
		w.Sim.State(fmt.Sprintf("!c09 kinds=%v verdict=%s restored=%v foreign=%v", keysOf(kinds), verdict, restored, fk))
		if verdict == "unjudged" {
			w.Sim.Probe("c09-partly-restored-unjudged")
			continue
		}
		answered := len(b.P2Answers) > 0
		rolled := answered && b.P2Answers[len(b.P2Answers)-1] == simtc.BSPhaseTwoRollbacked
		anyRolled := false
		for _, a := range b.P2Answers {
			if a == simtc.BSPhaseTwoRollbacked {
				anyRolled = true
			}
		}
		var wrote []simdb.RowWrite
		for _, t := range p2 {
			if t.committed {
				wrote = append(wrote, appWrites(t.writes)...)
			}
		}
		switch verdict {
		case "dirty":
			w.Sim.Probe("c09-dirty")
			c := cur[dirtyRow.Table][dirtyRow.Key]
			if anyRolled {
				r.violate("C09", "dirty-not-rollbacked", "rollbacked-over-foreign-write"+feat, "episode %d branch %d: row %s[%s] is %s, which differs from both the before image %s and the after image %s (foreign writer: %v), but the branch answered Rollbacked", o.idx, b.ID, dirtyRow.Table, dirtyRow.Key, simdb.FormatRow(c), simdb.FormatRow(dirtyRow.Before), simdb.FormatRow(dirtyRow.After), fk)
			}
			if len(b.P2Answers) < b.P2Requests {
				r.violate("C09", "dirty-reports-failure", "no-answer-on-dirty"+feat, "episode %d branch %d: row %s[%s] differs from both images; the coordinator sent %d BranchRollback request(s) and got %d answer(s): the failure is not reported", o.idx, b.ID, dirtyRow.Table, dirtyRow.Key, b.P2Requests, len(b.P2Answers))
			}
			if len(wrote) > 0 {
				r.violate("C09", "dirty-untouched", "wrote-despite-foreign-write"+feat, "episode %d branch %d: row %s[%s] was changed by a foreign writer (%v) to %s but the rollback transaction committed %d application row write(s), first %s[%s] -> %s", o.idx, b.ID, dirtyRow.Table, dirtyRow.Key, fk, simdb.FormatRow(c), len(wrote), wrote[0].Table, wrote[0].Key, simdb.FormatRow(wrote[0].After))
			}
			left := false
			for _, u := range w.UndoRows(atSchema) {
				if u[0] == o.xid && u[1] == fmt.Sprint(b.ID) {
					left = true
				}
			}
			if !left {
				r.violate("C09", "dirty-untouched", "undo-log-removed-on-dirty"+feat, "episode %d branch %d: row %s[%s] differs from both images but the undo_log row of the branch is gone", o.idx, b.ID, dirtyRow.Table, dirtyRow.Key)
			}
		case "rollbacked":
			if !restored {
				w.Sim.Probe("c09-already-restored")
				if !rolled {
					r.violate("C09", "already-restored", "not-rollbacked-although-restored"+feat, "episode %d branch %d: every written row already equals its before image (%v) but the branch did not answer Rollbacked (answers %v)", o.idx, b.ID, fk, b.P2Answers)
				}
				if len(wrote) > 0 {
					r.violate("C09", "already-restored", "wrote-although-restored"+feat, "episode %d branch %d: the rows already equalled the before image but the rollback transaction wrote %d application row(s), first %s[%s] -> %s", o.idx, b.ID, len(wrote), wrote[0].Table, wrote[0].Key, simdb.FormatRow(wrote[0].After))
				}
			} else {
				w.Sim.Probe("c09-clean-restore")
				if !rolled {
					r.violate("C09", "clean-restores", "not-rollbacked-although-clean"+feat, "episode %d branch %d: every undo item found its rows equal to the after (or already the before) image (%v) but the branch did not answer Rollbacked (answers %v)", o.idx, b.ID, fk, b.P2Answers)
				} else {
					// the rows the branch wrote hold what the model restored
					last := p2[len(p2)-1]
					end := last.last + 1
					got := rollForward(o.beforeP2, j, o.jP2-o.jstart, end)
					for _, it := range items {
						for _, wr := range it.rows {
							if !rowsSame(got[wr.Table][wr.Key], cur[wr.Table][wr.Key]) {
								r.violate("C09", "clean-restores", "not-restored"+feat, "episode %d branch %d: after the rollback row %s[%s] is %s, the before image restored over the found state gives %s (foreign writer: %v)", o.idx, b.ID, wr.Table, wr.Key, simdb.FormatRow(got[wr.Table][wr.Key]), simdb.FormatRow(cur[wr.Table][wr.Key]), fk)
							}
						}
					}
				}
			}
		}
	}
}

var setColRe = regexp.MustCompile("(?i)[`]?([a-z_][a-z0-9_]*)[`]?\\s*=")

// setColumns extracts the assigned column names of a simple UPDATE statement.
func setColumns(sqlText string) map[string]bool {
	up := strings.ToUpper(sqlText)
	i := strings.Index(up, " SET ")
	if i < 0 {
		return nil
	}
	rest := sqlText[i+5:]
	if k := strings.Index(strings.ToUpper(rest), " WHERE "); k >= 0 {
		rest = rest[:k]
	}
	out := map[string]bool{}
	// split on commas outside parentheses / quotes
	depth, start := 0, 0
	inq := byte(0)
	parts := []string{}
	for p := 0; p < len(rest); p++ {
		ch := rest[p]
		switch {
		case inq != 0:
			if ch == '\\' {
				p++
			} else if ch == inq {
				inq = 0
			}
		case ch == '\'' || ch == '"':
			inq = ch
		case ch == '(':
			depth++
		case ch == ')':
			depth--
		case ch == ',' && depth == 0:
			parts = append(parts, rest[start:p])
			start = p + 1
		}
	}
	parts = append(parts, rest[start:])
	for _, part := range parts {
		if m := setColRe.FindStringSubmatch(part); m != nil {
			out[strings.ToLower(m[1])] = true
		}
	}
	return out
}

// applyRestore writes the before image of wr over cur on the recorded columns.
func applyRestore(cur simdb.Snapshot, tab *simdb.Table, cols map[string]bool, wr simdb.RowWrite) {
	if cur[wr.Table] == nil {
		cur[wr.Table] = map[string]simdb.Row{}
	}
	switch {
	case wr.Before == nil:
		delete(cur[wr.Table], wr.Key)
	case wr.After == nil || cols == nil:
		cur[wr.Table][wr.Key] = wr.Before
	default:
		c := cur[wr.Table][wr.Key]
		n := append(simdb.Row(nil), c...)
		for i, col := range tab.Columns() {
			if cols[strings.ToLower(col.Name)] {
				n[i] = wr.Before[i]
			}
		}
		cur[wr.Table][wr.Key] = n
	}
}

// rollForward applies the committed writes of journal entries [from,to) to a
// copy of snap.
func rollForward(snap simdb.Snapshot, j []simdb.JEntry, from, to int) simdb.Snapshot {
	out := simdb.Snapshot{}
	for t, rows := range snap {
		m := map[string]simdb.Row{}
		for k, r := range rows {
			m[k] = r
		}
		out[t] = m
	}
	if from < 0 {
		from = 0
	}
	for i := from; i < to && i < len(j); i++ {
		e := j[i]
		if e.Err != "" && !strings.Contains(e.Err, "after the statement was applied") {
			continue
		}
		if e.Kind == "COMMIT" || ((e.Kind == "EXEC" || e.Kind == "QUERY") && !e.InTxn) {
			for _, w := range e.Writes {
				if out[w.Table] == nil {
					out[w.Table] = map[string]simdb.Row{}
				}
				if w.After == nil {
					delete(out[w.Table], w.Key)
				} else {
					out[w.Table][w.Key] = w.After
				}
			}
		}
	}
	return out
}

func rowsSame(a, b simdb.Row) bool {
	if a == nil || b == nil {
		return a == nil && b == nil
	}
	return simdb.RowsEqual(a, b)
}

// recordedEqual compares cur with img on the recorded columns (all columns, or
// the assigned columns + key under only-care-update-columns).
func recordedEqual(tab *simdb.Table, cols map[string]bool, cur, img simdb.Row) bool {
	if cur == nil || img == nil {
		return cur == nil && img == nil
	}
	for i, c := range tab.Columns() {
		if cols != nil && !cols[strings.ToLower(c.Name)] {
			isPK := false
			for _, pi := range tab.PKIdx() {
				if pi == i {
					isPK = true
				}
			}
			if !isPK {
				continue
			}
		}
		if !simdb.Equal(cur[i], img[i]) {
			return false
		}
	}
	return true
}

func init() { engines["C09"] = runC09 }
