package sim

import (
	"context"
	"encoding/json"
	"errors"
	"fmt"
	"reflect"
	"testing"
	"time"

	"seata.apache.org/seata-go/pkg/rm/tcc"
	"seata.apache.org/seata-go/pkg/tm"

	"verif/simkit"
	"verif/simnet"
	"verif/simtc"
)

// C05 — TCC branches are registered before try and dispatched faithfully in
// phase two.

// ---- parameter struct family ------------------------------------------------------

type c05Nested struct {
	City string   `json:"city"`
	Zip  int      `json:"zip"`
	Tags []string `json:"tags"`
}

type c05ParamsA struct {
	Account string  `tccParam:"account"`
	Amount  float64 `tccParam:"amount"`
	Count   int64   `tccParam:"count"`
	Note    string  // untagged: must not appear
	secret  string  `tccParam:"secret"` // unexported: skipped
	Ignored string  `tccParam:"-"`
}

type c05ParamsB struct {
	Addr    c05Nested         `tccParam:"addr"`
	PAddr   *c05Nested        `tccParam:"paddr"`
	List    []int             `tccParam:"list"`
	M       map[string]string `tccParam:"m"`
	Flag    bool              `tccParam:"flag"`
	Empty   string            `tccParam:"empty"`
	Nothing *c05Nested        `tccParam:"nothing"`
}

type c05ParamsC struct {
	tm.BusinessActionContext
	Order string `tccParam:"order"`
}

type c05ParamsD struct {
	Ctx   *tm.BusinessActionContext
	Order string `tccParam:"order"`
	Big   int64  `tccParam:"big"`
}

type C05Param struct {
	Kind    string  `json:"kind"` // A | B | C | D | none | ptrA | ptrB
	S       string  `json:"s"`
	F       float64 `json:"f"`
	I       int64   `json:"i"`
	N       int     `json:"n"`
	NilPtr  bool    `json:"nil_ptr"`
	HasBCtx bool    `json:"has_bctx"`
	Carried bool    `json:"carried"` // the BusinessActionContext handed in already holds entries
	Shared  bool    `json:"shared"`  // kind D: the same *BusinessActionContext object is reused by every prepare of the episode
}

func (p C05Param) build(shared *tm.BusinessActionContext) (params interface{}, tagged map[string]interface{}) {
	nested := c05Nested{City: p.S, Zip: p.N, Tags: []string{p.S, "x"}}
	switch p.Kind {
	case "A", "ptrA":
		v := c05ParamsA{Account: p.S, Amount: p.F, Count: p.I, Note: "note", secret: "s3cr3t", Ignored: "ign"}
		tagged = map[string]interface{}{"account": v.Account, "amount": v.Amount, "count": v.Count}
		if p.Kind == "ptrA" {
			return &v, tagged
		}
		return v, tagged
	case "B", "ptrB":
		v := c05ParamsB{Addr: nested, List: []int{p.N, 2, 3}, M: map[string]string{"k": p.S}, Flag: p.N%2 == 0, Empty: ""}
		if !p.NilPtr {
			n2 := nested
			v.PAddr = &n2
		}
		tagged = map[string]interface{}{"addr": v.Addr, "paddr": v.PAddr, "list": v.List, "m": v.M, "flag": v.Flag, "empty": v.Empty, "nothing": v.Nothing}
		if p.Kind == "ptrB" {
			return &v, tagged
		}
		return v, tagged
	case "C":
		v := c05ParamsC{Order: p.S}
		if p.Carried {
			v.BusinessActionContext.ActionContext = map[string]interface{}{"carried-over": "from the caller"}
		}
		return v, map[string]interface{}{"order": v.Order}
	case "D":
		v := c05ParamsD{Order: p.S, Big: p.I}
		if p.HasBCtx {
			v.Ctx = &tm.BusinessActionContext{}
			if p.Carried {
				v.Ctx.ActionContext = map[string]interface{}{"carried-over": "from the caller"}
			}
			if p.Shared && shared != nil {
				v.Ctx = shared
			}
		}
		return v, map[string]interface{}{"order": v.Order, "big": v.Big}
	}
	return nil, map[string]interface{}{}
}

// ---- actions -------------------------------------------------------------------------

type c05Call struct {
	phase    string
	xid      string
	branchID int64
	actx     map[string]interface{}
	seq      uint64
	param    interface{}
}

type c05Recorder struct {
	sim    *simkit.Sim
	name   string
	calls  []c05Call
	script map[string][]string // phase -> queue of "ok"/"err"/"panic"
}

func (r *c05Recorder) next(phase string) string {
	q := r.script[phase]
	if len(q) == 0 {
		return "ok"
	}
	r.script[phase] = q[1:]
	return q[0]
}

func (r *c05Recorder) do(phase string, ctx context.Context, b *tm.BusinessActionContext, param interface{}) (bool, error) {
	c := c05Call{phase: phase, seq: r.sim.Logf("USER %s.%s", r.name, phase), param: param}
	if b != nil {
		c.xid, c.branchID = b.Xid, b.BranchId
		bs, _ := json.Marshal(b.ActionContext)
		json.Unmarshal(bs, &c.actx)
	} else {
		c.xid = tm.GetXID(ctx)
	}
	r.calls = append(r.calls, c)
	switch r.next(phase) {
	case "err":
		return false, errors.New("scripted failure of " + r.name + "." + phase)
	case "panic":
		panic("scripted panic of " + r.name + "." + phase)
	case "ok-false":
		// no error: the boolean is not what the property (or the coordinator)
		// is told about
		return false, nil
	}
	return true, nil
}

// interface style
type c05IfaceAction struct{ *c05Recorder }

func (a *c05IfaceAction) Prepare(ctx context.Context, params interface{}) (bool, error) {
	return a.do("prepare", ctx, tm.GetBusinessActionContext(ctx), params)
}
func (a *c05IfaceAction) Commit(ctx context.Context, b *tm.BusinessActionContext) (bool, error) {
	return a.do("commit", ctx, b, nil)
}
func (a *c05IfaceAction) Rollback(ctx context.Context, b *tm.BusinessActionContext) (bool, error) {
	return a.do("rollback", ctx, b, nil)
}
func (a *c05IfaceAction) GetActionName() string { return a.name }

// tagged function-struct style (action name comes from a struct tag, so one
// type per action)
type c05FnActionX struct {
	Try     func(ctx context.Context, params interface{}) (bool, error)          `seataTwoPhaseAction:"prepare" seataTwoPhaseServiceName:"c05-fn-x"`
	Confirm func(ctx context.Context, b *tm.BusinessActionContext) (bool, error) `seataTwoPhaseAction:"commit"`
	Cancel  func(ctx context.Context, b *tm.BusinessActionContext) (bool, error) `seataTwoPhaseAction:"rollback"`
}
type c05FnActionY struct {
	Try     func(ctx context.Context, params interface{}) (bool, error)          `seataTwoPhaseAction:"prepare" seataTwoPhaseServiceName:"c05-fn-y"`
	Confirm func(ctx context.Context, b *tm.BusinessActionContext) (bool, error) `seataTwoPhaseAction:"commit"`
	Cancel  func(ctx context.Context, b *tm.BusinessActionContext) (bool, error) `seataTwoPhaseAction:"rollback"`
}

// ---- plan ------------------------------------------------------------------------------

type C05P2 struct {
	Branch  int    `json:"branch"` // index into the episode's prepares; -1 = unknown branch id
	Commit  bool   `json:"commit"`
	Data    string `json:"data"`    // registered | empty | malformed | notjson-object
	Unknown bool   `json:"unknown"` // unknown resource id
	Result  string `json:"result"`  // user method outcome: ok | err | panic
}

type C05Prep struct {
	Action int      `json:"action"`
	Param  C05Param `json:"param"`
	Reg    string   `json:"reg"` // ok | fail | silent
	Try    string   `json:"try"` // ok | err
}

type C05Episode struct {
	Preps []C05Prep `json:"preps"`
	P2    []C05P2   `json:"p2"`
}

type C05Plan struct {
	Episodes []C05Episode `json:"episodes"`
	// AnnounceFail k > 0: when the k-th action is created its announcement to
	// the coordinator gets no answer; the application keeps the proxy it got (the
	// action is the client's from then on, the coordinator learns of it with
	// the next branch)
	AnnounceFail int   `json:"announce_fail,omitempty"`
	Tape         []int `json:"tape"`
}

func genC05(seed uint64, tier string) *C05Plan {
	g := simkit.NewGen(seed)
	n := 25
	if tier == "thorough" {
		n = 150
	}
	p := &C05Plan{}
	strs := []string{"", "acc-1", "héllo ✓", "{\"a\":1}", "dGVzdA==", "with \"quotes\" and \\ slash", "123"}
	for i := 0; i < n; i++ {
		var e C05Episode
		np := g.Range(1, 3)
		for j := 0; j < np; j++ {
			pr := C05Prep{Action: g.Intn(5), Reg: "ok", Try: "ok"}
			pr.Param = C05Param{Kind: simkit.Pick(g, []string{"A", "ptrA", "B", "ptrB", "C", "D"}), S: simkit.Pick(g, strs),
				F: simkit.Pick(g, []float64{0, 0.1, -3.5, 1e10, 12345.678}), I: simkit.Pick(g, []int64{0, 1, -1, 9007199254740993, 9223372036854775807, -9223372036854775808}),
				N: g.Intn(100), NilPtr: g.Bool(), HasBCtx: g.Bool(), Carried: g.Prob(0.3), Shared: g.Prob(0.3)}
			if g.Prob(0.15) {
				pr.Reg = simkit.Pick(g, []string{"fail", "silent"})
			}
			if g.Prob(0.1) {
				pr.Try = "err"
			}
			e.Preps = append(e.Preps, pr)
		}
		n2 := g.Range(1, 6)
		for j := 0; j < n2; j++ {
			q := C05P2{Branch: g.Intn(np), Commit: g.Bool(), Data: "registered", Result: simkit.Pick(g, []string{"ok", "ok", "ok", "ok-false"})}
			if g.Prob(0.12) {
				q.Branch = -1
			}
			if g.Prob(0.15) {
				q.Data = simkit.Pick(g, []string{"empty", "malformed", "notjson-object"})
			}
			if g.Prob(0.1) {
				q.Unknown = true
			}
			if g.Prob(0.2) {
				q.Result = simkit.Pick(g, []string{"err", "err", "panic"})
			}
			e.P2 = append(e.P2, q)
		}
		p.Episodes = append(p.Episodes, e)
	}
	if g.Prob(0.3) {
		p.AnnounceFail = g.Range(1, 3)
	}
	return p
}

func jsonEq(a, b interface{}) bool {
	ab, _ := json.Marshal(a)
	bb, _ := json.Marshal(b)
	var av, bv interface{}
	json.Unmarshal(ab, &av)
	json.Unmarshal(bb, &bv)
	return reflect.DeepEqual(av, bv)
}

func runC05(t *testing.T, seed uint64, planJSON []byte, tier string) (res *Result) {
	res = &Result{}
	var plan *C05Plan
	var tape *simkit.Tape
	if planJSON != nil {
		plan = &C05Plan{}
		if err := json.Unmarshal(planJSON, plan); err != nil {
			res.InvalidPlan = err.Error()
			return res
		}
		tape = simkit.ReplayTape(plan.Tape)
	} else {
		plan = genC05(seed, tier)
		tape = simkit.NewTape(seed)
	}
	res.Harness = runBubbleP(t, plan, func(t *testing.T) {
		w := bootRemoting(seed, tape, BootCfg{LoadBalance: "RandomLoadBalance", CommitRetry: 1, RollbackRetry: 1}, simnet.Config{FragmentPct: 10})
		sim, tc, net := w.Sim, w.TC, w.Net
		sim.Known = loadKnown("C05")
		sim.MaxStep = 1000000
		sim.MaxTime = 1000 * time.Hour
		tc.AutoP2 = false
		tcc.InitTCC()
		net.Open(TCAddr)
		sim.Run(func() bool { return tc.SessionIsTM(0) && sim.Enabled() == 0 })

		// five registered actions: three interface style, two function-struct style
		var recs []*c05Recorder
		var proxies []*tcc.TCCServiceProxy
		regDone := false
		sim.Go("register", func() {
			defer func() { recover(); regDone = true }()
			for i := 0; i < 3; i++ {
				r := &c05Recorder{sim: sim, name: fmt.Sprintf("c05-iface-%d", i), script: map[string][]string{}}
				if plan.AnnounceFail == i+1 {
					tc.Rules = []simtc.Rule{{Code: simtc.TRegRM, Nth: tc.CountOf(simtc.TRegRM) + 1, Action: simtc.ActSilent}}
				}
				p, err := tcc.NewTCCServiceProxy(&c05IfaceAction{r})
				tc.Rules = nil
				if err != nil && plan.AnnounceFail == i+1 && p != nil {
					sim.Fault("tc-announcement-of-an-action-unanswered")
					err = nil
				}
				if err != nil {
					return
				}
				recs = append(recs, r)
				proxies = append(proxies, p)
			}
			rx := &c05Recorder{sim: sim, name: "c05-fn-x", script: map[string][]string{}}
			px, err := tcc.NewTCCServiceProxy(&c05FnActionX{
				Try: func(ctx context.Context, params interface{}) (bool, error) {
					return rx.do("prepare", ctx, tm.GetBusinessActionContext(ctx), params)
				},
				Confirm: func(ctx context.Context, b *tm.BusinessActionContext) (bool, error) {
					return rx.do("commit", ctx, b, nil)
				},
				Cancel: func(ctx context.Context, b *tm.BusinessActionContext) (bool, error) {
					return rx.do("rollback", ctx, b, nil)
				}})
			if err != nil {
				return
			}
			recs = append(recs, rx)
			proxies = append(proxies, px)
			ry := &c05Recorder{sim: sim, name: "c05-fn-y", script: map[string][]string{}}
			py, err := tcc.NewTCCServiceProxy(&c05FnActionY{
				Try: func(ctx context.Context, params interface{}) (bool, error) {
					return ry.do("prepare", ctx, tm.GetBusinessActionContext(ctx), params)
				},
				Confirm: func(ctx context.Context, b *tm.BusinessActionContext) (bool, error) {
					return ry.do("commit", ctx, b, nil)
				},
				Cancel: func(ctx context.Context, b *tm.BusinessActionContext) (bool, error) {
					return ry.do("rollback", ctx, b, nil)
				}})
			if err != nil {
				return
			}
			recs = append(recs, ry)
			proxies = append(proxies, py)
		})
		t0 := sim.Now()
		sim.Run(func() bool { return regDone || sim.Now()-t0 > 200*time.Second })
		if len(proxies) != 5 {
			sim.Violate("C05", "setup", "action-registration-failed", "could not register the TCC actions (%d of 5)", len(proxies))
			finishResult(res, sim)
			return
		}

		for ei := range plan.Episodes {
			ep := &plan.Episodes[ei]
			for _, r := range recs {
				r.calls = nil
				r.script = map[string][]string{}
			}
			logStart := len(tc.Log)
			// registration behaviour for this episode's prepares, in order
			regQ := []string{}
			for _, pr := range ep.Preps {
				regQ = append(regQ, pr.Reg)
			}
			regBase := tc.CountOf(simtc.TBranchRegister)
			tc.Rules = nil
			for k, a := range regQ {
				switch a {
				case "fail":
					act := simtc.ActFail
					if (ei+k)%2 == 1 {
						// every other refusal carries no exception code
						act = simtc.ActFailNoCode
					}
					tc.Rules = append(tc.Rules, simtc.Rule{Code: simtc.TBranchRegister, Nth: regBase + k + 1, Action: act})
				case "silent":
					tc.Rules = append(tc.Rules, simtc.Rule{Code: simtc.TBranchRegister, Nth: regBase + k + 1, Action: simtc.ActSilent})
				}
			}
			type prepRes struct {
				err      error
				endSeq   uint64
				startSeq uint64
				xid      string
				tagged   map[string]interface{}
				stopped  bool
			}
			pres := make([]prepRes, len(ep.Preps))
			var xid string
			gdone := false
			sharedCtx := &tm.BusinessActionContext{}
			sim.Go("c05-gtx", func() {
				defer func() { recover(); gdone = true }()
				tm.WithGlobalTx(context.Background(), &tm.GtxConfig{Name: fmt.Sprintf("c05-%d", ei), Timeout: 60 * time.Second}, func(ctx context.Context) error {
					xid = tm.GetXID(ctx)
					for k, pr := range ep.Preps {
						if pr.Action < 0 || pr.Action >= len(proxies) {
							continue
						}
						params, tagged := pr.Param.build(sharedCtx)
						pres[k].tagged = tagged
						if pr.Try == "err" && pr.Reg == "ok" {
							recs[pr.Action].script["prepare"] = append(recs[pr.Action].script["prepare"], "err")
						}
						pres[k].startSeq = sim.Seq()
						_, err := func() (r interface{}, e error) {
							defer func() {
								if p := recover(); p != nil {
									e = fmt.Errorf("Prepare panicked: %v", p)
								}
							}()
							return proxies[pr.Action].Prepare(ctx, params)
						}()
						pres[k].err = err
						pres[k].endSeq = sim.Logf("PREPARE %d returned", k)
						if err != nil && pr.Reg != "ok" {
							// registration failed: the branch does not exist; a real
							// application would stop here, we go on to the next prepare
							// (each prepare is judged on its own)
							continue
						}
					}
					return nil
				})
			})
			t1 := sim.Now()
			sim.Run(func() bool { return gdone || sim.Now()-t1 > 600*time.Second })
			res.Episodes++
			if !gdone {
				sim.Violate("C05", "termination", "gtx-stuck", "episode %d: global transaction with TCC prepares never returned", ei)
				break
			}
			// ---- oracle for the prepares ----
			var regs []simtc.Rec
			for _, r := range tc.Log[logStart:] {
				if r.In && r.F.Body != nil && r.F.Body.Code == simtc.TBranchRegister {
					regs = append(regs, r)
				}
			}
			g := tc.Globals[xid]
			branchOf := make([]*simtc.Branch, len(ep.Preps))
			ri := 0
			for k, pr := range ep.Preps {
				if pr.Action < 0 || pr.Action >= len(proxies) {
					continue
				}
				rec := recs[pr.Action]
				vv := func(clause, class, f string, a ...any) {
					sim.Violate("C05", clause, class, "episode %d prepare %d %+v: %s", ei, k, pr, fmt.Sprintf(f, a...))
				}
				if ri >= len(regs) {
					vv("register-once", "no-register", "no BranchRegister request reached the coordinator")
					continue
				}
				rq := regs[ri]
				ri++
				m := rq.F.Body
				if m.BranchType != simtc.BranchTCC || m.ResourceID != rec.name || m.Xid != xid {
					vv("register-fields", "wrong-register-fields", "BranchRegister{type=%d resource=%q xid=%q}, want TCC/%q/%q", m.BranchType, m.ResourceID, m.Xid, rec.name, xid)
				}
				var app map[string]interface{}
				if err := json.Unmarshal(m.AppData, &app); err != nil {
					vv("application-data", "appdata-not-json", "application data is not JSON: %q", m.AppData)
				} else {
					ac, _ := app["actionContext"].(map[string]interface{})
					for key, want := range pres[k].tagged {
						got, ok := ac[key]
						if !ok || !jsonEq(got, want) {
							wb, _ := json.Marshal(want)
							gb, _ := json.Marshal(got)
							vv("application-data", "appdata-tagged-field", "actionContext[%q] = %s, want %s", key, gb, wb)
						}
					}
					framework := map[string]bool{"action-start-time": true, "host-name": true, "sys::prepare": true, "sys::commit": true, "sys::rollback": true, "actionName": true}
					for key := range ac {
						if _, isTagged := pres[k].tagged[key]; !isTagged && !framework[key] {
							vv("application-data", "appdata-untagged-leak", "actionContext carries %q which is neither a tagged parameter of this prepare nor a framework entry", key)
						}
					}
				}
				// the user's try: count its calls in order
				var tries []c05Call
				for _, c := range rec.calls {
					if c.phase == "prepare" && c.seq > pres[k].startSeq && c.seq < pres[k].endSeq {
						tries = append(tries, c)
					}
				}
				switch pr.Reg {
				case "ok":
					if len(tries) != 1 {
						cls := "try-missing"
						if len(tries) > 1 {
							cls = "try-repeated"
						}
						vv("try-runs", cls, "registration succeeded but the user's try ran %d times (Prepare returned %v)", len(tries), pres[k].err)
						break
					}
					tr := tries[0]
					if tr.seq < rq.Seq {
						vv("register-before-try", "try-before-register", "user try started at seq %d, BranchRegister was received at seq %d", tr.seq, rq.Seq)
					}
					if tr.xid != xid {
						vv("try-args", "try-wrong-xid", "try saw xid %q, want %q", tr.xid, xid)
					}
					if (pr.Try == "err") != (pres[k].err != nil) {
						vv("try-result", "prepare-result-mismatch", "user try outcome %s but Prepare returned %v", pr.Try, pres[k].err)
					}
					if g != nil {
						for _, b := range g.Branches {
							if b.RegSeq > rq.Seq-1 && branchOf[k] == nil && b.Resource == rec.name {
								used := false
								for _, o := range branchOf {
									if o == b {
										used = true
									}
								}
								if !used {
									branchOf[k] = b
								}
							}
						}
					}
				default:
					if pres[k].err == nil {
						vv("register-failure", "prepare-nil-after-failed-register", "registration %s but Prepare returned nil", pr.Reg)
					}
					// try must not have run for this prepare: tries consumed so far must not grow
					if len(tries) > 0 {
						vv("register-failure", "try-after-failed-register", "registration %s but the user's try ran", pr.Reg)
					}
				}
			}
			if ri < len(regs) {
				sim.Violate("C05", "register-once", "extra-register", "episode %d: %d BranchRegister requests for %d prepares", ei, len(regs), len(ep.Preps))
			}
			if len(sim.Violations()) > 0 {
				break
			}

			// ---- phase two ----
			for qi, q := range ep.P2 {
				vv := func(clause, class, f string, a ...any) {
					sim.Violate("C05", clause, class, "episode %d phase-two %d %+v: %s", ei, qi, q, fmt.Sprintf(f, a...))
				}
				var b *simtc.Branch
				if q.Branch >= 0 && q.Branch < len(branchOf) {
					b = branchOf[q.Branch]
				}
				fake := false
				if b == nil {
					// unknown branch id on a known resource (the TCC manager has no branch table: it must still dispatch by resource)
					b = &simtc.Branch{ID: 990000 + int64(qi), Xid: xid, Type: simtc.BranchTCC, Resource: recs[0].name, AppData: []byte(`{"actionContext":{"order":"ghost"}}`)}
					fake = true
				}
				send := *b
				if q.Unknown {
					send.Resource = "no-such-action"
				}
				data := b.AppData
				switch q.Data {
				case "empty":
					data = nil
				case "malformed":
					data = []byte(`{"actionContext":`)
				case "notjson-object":
					data = []byte(`{"actionContext":"a string"}`)
				}
				var rec *c05Recorder
				for _, r := range recs {
					if r.name == send.Resource {
						rec = r
					}
				}
				phase := "rollback"
				if q.Commit {
					phase = "commit"
				}
				before := 0
				if rec != nil {
					before = len(rec.calls)
					if q.Result != "ok" && !q.Unknown && q.Data != "malformed" && q.Data != "notjson-object" {
						rec.script[phase] = append(rec.script[phase], q.Result)
					}
				}
				totalBefore := 0
				for _, r := range recs {
					totalBefore += len(r.calls)
				}
				answered, status, got := false, byte(0), false
				// route on session 0 even for the unknown resource
				tc.SendBranchEnd(&send, q.Commit, data, 0, func(st byte, ok bool) { answered, status, got = ok, st, true })
				t2 := sim.Now()
				sim.Run(func() bool { return got || sim.Now()-t2 > 30*time.Second })
				totalAfter := 0
				for _, r := range recs {
					totalAfter += len(r.calls)
				}
				okStatus := byte(simtc.BSPhaseTwoRollbacked)
				if q.Commit {
					okStatus = simtc.BSPhaseTwoCommitted
				}
				success := answered && status == okStatus
				// "retryable failure otherwise": a failure the coordinator must not
				// take as final
				if answered && !success && (status == simtc.BSPhaseTwoCommitFailedNoRetry || status == simtc.BSPhaseTwoRollbackFailedNoRetr) {
					why := q.Result
					if q.Unknown {
						why = "unknown-resource"
					} else if q.Data == "malformed" || q.Data == "notjson-object" {
						why = "malformed-data"
					}
					vv("truthful-status", "unretryable-failure-"+why, "the request failed (%s) and was answered with the final status %d instead of a retryable failure", why, status)
				}
				switch {
				case q.Unknown:
					if totalAfter != totalBefore {
						vv("unknown-resource", "user-code-for-unknown-resource", "a request for an unknown resource ran user code")
					}
					if success {
						vv("unknown-resource", "success-for-unknown-resource", "a request for an unknown resource was answered with a success status")
					}
				case q.Data == "malformed" || q.Data == "notjson-object":
					if success {
						vv("malformed-data", "success-for-malformed-data", "malformed application data was answered with success")
					}
				default:
					calls := rec.calls[before:]
					if len(calls) != 1 || calls[0].phase != phase {
						vv("dispatch-once", "dispatch-count", "the action's %s must run exactly once per request, calls: %d", phase, len(calls))
						break
					}
					c := calls[0]
					if c.xid != send.Xid || c.branchID != send.ID {
						vv("dispatch-args", "dispatch-wrong-ids", "user %s saw xid/branch %q/%d, request had %q/%d", phase, c.xid, c.branchID, send.Xid, send.ID)
					}
					if q.Data == "registered" && !fake {
						var app map[string]interface{}
						json.Unmarshal(b.AppData, &app)
						want, _ := app["actionContext"].(map[string]interface{})
						for key, wv := range want {
							if !jsonEq(c.actx[key], wv) {
								wb, _ := json.Marshal(wv)
								gb, _ := json.Marshal(c.actx[key])
								vv("dispatch-args", "dispatch-context-mismatch", "action context key %q = %s in phase two, %s at prepare", key, gb, wb)
							}
						}
					}
					if totalAfter-totalBefore != 1 {
						vv("dispatch-once", "other-action-ran", "%d user methods ran for one request", totalAfter-totalBefore)
					}
					userOK := q.Result == "ok" || q.Result == "ok-false"
					if userOK != success {
						if userOK {
							vv("truthful-status", "no-success-after-ok", "user %s returned nil but the reply was answered=%v status=%d", phase, answered, status)
						} else {
							vv("truthful-status", "success-after-"+q.Result, "user %s outcome %s but the coordinator received status %d", phase, q.Result, status)
						}
					}
				}
				sig := fmt.Sprintf("p2 commit=%v data=%s unknown=%v result=%s fake=%v", q.Commit, q.Data, q.Unknown, q.Result, fake)
				if q.Data != "registered" || q.Unknown || (q.Result != "ok" && q.Result != "ok-false") || fake {
					sig = "!" + sig
				}
				sim.State(sig)
				if len(sim.Violations()) > 0 {
					break
				}
			}
			for _, pr := range ep.Preps {
				sim.State(fmt.Sprintf("!prep kind=%s reg=%s try=%s action=%d", pr.Param.Kind, pr.Reg, pr.Try, pr.Action))
			}
			if len(res.Samples) < 2 {
				res.Samples = append(res.Samples, ep)
			}
			if len(sim.Violations()) > 0 {
				break
			}
			// the client must still be serving: a plain commit for a ghost branch on action 0
			alive := false
			gb := &simtc.Branch{ID: 880000 + int64(ei), Xid: xid, Type: simtc.BranchTCC, Resource: recs[0].name}
			tc.SendBranchEnd(gb, true, nil, 0, func(st byte, ok bool) { alive = ok && st == simtc.BSPhaseTwoCommitted })
			t3 := sim.Now()
			sim.Run(func() bool { return alive || sim.Now()-t3 > 30*time.Second })
			if !alive {
				sim.Violate("C05", "keeps-serving", "stopped-serving", "episode %d: after the phase-two sequence a plain commit request is no longer answered", ei)
				break
			}
		}
		plan.Tape = tape.Rec
		finishResult(res, sim)
	})
	res.Plan, _ = json.Marshal(plan)
	res.Components = map[string]string{"pkg/rm/tcc (service proxy, resource manager)": "real", "pkg/rm (two-phase reflection, remoting)": "real", "pkg/remoting/processor/client (branch commit/rollback processors)": "real", "pkg/tm": "real", "user actions": "recording stubs with scripted results", "coordinator": "model (simtc)"}
	return res
}

func init() { engines["C05"] = runC05 }
