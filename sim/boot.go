package sim

import (
	"encoding/json"
	"fmt"
	"io"
	"os"
	"runtime"
	"runtime/debug"
	"sort"
	"strings"
	"sync"
	"testing"
	"testing/synctest"
	"time"

	gxtime "github.com/dubbogo/gost/time"
	"github.com/google/uuid"

	"seata.apache.org/seata-go/pkg/discovery"
	remoteConfig "seata.apache.org/seata-go/pkg/remoting/config"
	"seata.apache.org/seata-go/pkg/remoting/getty"
	pclient "seata.apache.org/seata-go/pkg/remoting/processor/client"
	"seata.apache.org/seata-go/pkg/rm"
	"seata.apache.org/seata-go/pkg/tm"
	"seata.apache.org/seata-go/pkg/util/log"

	"verif/simkit"
	"verif/simnet"
	"verif/simtc"
)

// Result is what a child process reports to simdrive.
type Result struct {
	Property    string             `json:"property"`
	Seed        uint64             `json:"seed"`
	Plan        json.RawMessage    `json:"plan"`
	Violations  []simkit.Violation `json:"violations"`
	Episodes    int                `json:"episodes"`
	Steps       int                `json:"steps"`
	SimTimeNS   int64              `json:"sim_time_ns"`
	Faults      map[string]int     `json:"faults"`
	Probes      map[string]int     `json:"probes"`
	States      []string           `json:"states"`
	TraceHash   string             `json:"trace_hash"`
	Samples     []any              `json:"samples"`
	Inconcl     int                `json:"inconclusive"`
	Log         []string           `json:"log,omitempty"`
	Harness     string             `json:"harness_error,omitempty"`
	InvalidPlan string             `json:"invalid_plan,omitempty"`
	Components  map[string]string  `json:"components,omitempty"`
	KnownHits   map[string]int     `json:"known_hits,omitempty"`
	KnownWhat   map[string]string  `json:"known_what,omitempty"`
}

// loadKnown reads /verif/known_findings.jsonl (path from VERIF_KNOWN or the
// default) and returns the open findings of a property as clause/class keys.
func loadKnown(prop string) map[string]bool {
	path := os.Getenv("VERIF_KNOWN")
	if path == "" {
		path = "/verif/known_findings.jsonl"
	}
	out := map[string]bool{}
	b, err := os.ReadFile(path)
	if err != nil {
		return out
	}
	for _, line := range strings.Split(string(b), "\n") {
		line = strings.TrimSpace(line)
		if line == "" || strings.HasPrefix(line, "#") {
			continue
		}
		var e struct {
			Property string `json:"property"`
			Clause   string `json:"clause"`
			Class    string `json:"class"`
			Status   string `json:"status"`
		}
		if json.Unmarshal([]byte(line), &e) != nil {
			continue
		}
		if e.Property == prop && e.Status == "open" {
			out[e.Clause+"/"+e.Class] = true
		}
	}
	return out
}

// World bundles the simulator pieces of one run.
type World struct {
	Sim *simkit.Sim
	Net *simnet.Net
	TC  *simtc.TC
	Res *Result
}

const TCAddr = "10.0.0.7:8091"

type nopLogger struct{ sim *simkit.Sim }

func (l nopLogger) note(level, f string, v ...interface{}) {
	if l.sim != nil {
		defer func() { recover() }()
		l.sim.Note("CLIENT %s: %s", level, fmt.Sprintf(f, v...))
	}
}

func (nopLogger) Debug(v ...interface{})              {}
func (nopLogger) Debugf(fmt string, v ...interface{}) {}
func (nopLogger) Info(v ...interface{})               {}
func (l nopLogger) Infof(f string, v ...interface{}) {
	if strings.Contains(f, "compare row failed") || strings.Contains(f, "check dirty data failed") {
		l.note("info", f, v...)
	}
}
func (l nopLogger) Warn(v ...interface{})             { l.note("warn", "%v", v) }
func (l nopLogger) Warnf(f string, v ...interface{})  { l.note("warn", f, v...) }
func (l nopLogger) Error(v ...interface{})            { l.note("error", "%v", v) }
func (l nopLogger) Errorf(f string, v ...interface{}) { l.note("error", f, v...) }
func (nopLogger) Panic(v ...interface{})              {}
func (nopLogger) Panicf(fmt string, v ...interface{}) {}
func (nopLogger) Fatal(v ...interface{})              {}
func (nopLogger) Fatalf(fmt string, v ...interface{}) {}

type seededReader struct {
	mu sync.Mutex
	g  *simkit.Gen
}

func (r *seededReader) Read(p []byte) (int, error) {
	r.mu.Lock()
	defer r.mu.Unlock()
	for i := range p {
		p[i] = byte(r.g.Intn(256))
	}
	return len(p), nil
}

var _ io.Reader = (*seededReader)(nil)

// BootCfg is the generated client configuration.
type BootCfg struct {
	LoadBalance   string `json:"load_balance"`
	CommitRetry   int    `json:"commit_retry"`
	RollbackRetry int    `json:"rollback_retry"`
}

// bootRemoting initialises the client's remoting layer, TM and RM inside the
// current synctest bubble (exported init functions only) and connects it to
// a fresh coordinator model through a simulated session.
func bootRemoting(seed uint64, tape *simkit.Tape, cfg BootCfg, ncfg simnet.Config) *World {
	gxtime.VerifUseStdTimers = true
	uuid.SetRand(&seededReader{g: simkit.NewGen(seed ^ 0x55aa)})
	sim := simkit.NewSim(tape)
	log.SetLogger(nopLogger{sim})

	discovery.InitRegistry(&discovery.ServiceConfig{}, &discovery.RegistryConfig{Type: "file"})
	gcfg := &remoteConfig.Config{ReconnectInterval: 0, ConnectionNum: 1, LoadBalanceType: cfg.LoadBalance}
	scfg := &remoteConfig.SeataConfig{ApplicationID: "simapp", TxServiceGroup: "simgroup", LoadBalanceType: cfg.LoadBalance}
	getty.InitGetty(gcfg, scfg)
	rm.InitRm(rm.RmConfig{ApplicationID: "simapp", TxServiceGroup: "simgroup"})
	pclient.RegisterProcessor()
	tm.InitTm(tm.TmConfig{CommitRetryCount: cfg.CommitRetry, RollbackRetryCount: cfg.RollbackRetry, DefaultGlobalTransactionTimeout: 60 * time.Second})

	w := &World{Sim: sim}
	tc := simtc.New(sim, nil, TCAddr)
	net := simnet.New(sim, ncfg, tc, &getty.RpcPackageHandler{}, getty.GetGettyClientHandlerInstance())
	tc.Net = net
	w.Net, w.TC = net, tc
	return w
}

func finishResult(res *Result, sim *simkit.Sim) {
	// let everything that became runnable at this very instant (a timer that
	// fired together with the end of the run) finish first: what is in the log,
	// and hence the trace hash, must not depend on who wins that race
	func() {
		defer func() { recover() }()
		synctest.Wait()
	}()
	if res.Violations == nil {
		res.Violations = []simkit.Violation{}
	}
	res.Violations = append(res.Violations, sim.Violations()...)
	res.Steps += sim.Steps
	res.SimTimeNS += int64(sim.Now())
	if res.Faults == nil {
		res.Faults = map[string]int{}
	}
	if res.Probes == nil {
		res.Probes = map[string]int{}
	}
	for k, v := range sim.Faults {
		res.Faults[k] += v
	}
	for k, v := range sim.Probes {
		res.Probes[k] += v
	}
	var st []string
	for k := range sim.States {
		st = append(st, k)
	}
	sort.Strings(st)
	res.States = append(res.States, st...)
	res.TraceHash = sim.TraceHash()
	for k, v := range sim.KnownHits {
		if res.KnownHits == nil {
			res.KnownHits = map[string]int{}
			res.KnownWhat = map[string]string{}
		}
		res.KnownHits[k] += v
		if res.KnownWhat[k] == "" {
			res.KnownWhat[k] = sim.KnownWhat[k]
		}
	}
	if len(res.Violations) > 0 || os.Getenv("VERIF_LOG") != "" {
		res.Log = sim.Log()
	}
}

// runBubble runs f in a synctest bubble. The "main bubble goroutine has
// exited but blocked goroutines remain" panic at the end is expected (task
// pool workers, the client's background goroutines) and swallowed; any other
// panic is harness trouble.
func runBubble(t *testing.T, f func(t *testing.T)) (harness string) {
	defer func() {
		if r := recover(); r != nil {
			msg := fmt.Sprint(r)
			if strings.Contains(msg, "main bubble goroutine has exited") {
				return
			}
			harness = fmt.Sprintf("bubble panic: %v\n%s", r, debug.Stack())
		}
	}()
	synctest.Test(t, f)
	return ""
}

// startWatchdog kills the process with exit code 2 if the run takes longer
// than d of REAL time (a hung synctest.Wait is harness trouble, never a
// violation). Must be called outside the bubble.
func startWatchdog(d time.Duration, out string) {
	go func() {
		time.Sleep(d)
		buf := make([]byte, 1<<20)
		buf = buf[:runtime.Stack(buf, true)]
		fmt.Fprintf(os.Stderr, "WATCHDOG: run exceeded %v real time\n%s\n", d, buf)
		if out != "" {
			b, _ := json.Marshal(&Result{Harness: "watchdog: run exceeded real-time cap"})
			os.WriteFile(out, b, 0o644)
		}
		os.Exit(2)
	}()
}

// startParkedYield arms, in mode "yield", the scheduling points of the
// instrumented copy of the client for an engine whose goroutines run one at a
// time under the seeded scheduler. It returns the function that disarms them
// and lets the goroutines still parked at a point go on (to be called before
// finishResult), and false when the binary is not the instrumented one.
func startParkedYield(sim *simkit.Sim, seed uint64, res *Result) (stop func(), ok bool) {
	if *flagMode != "yield" {
		return func() {}, true
	}
	if !yieldBuilt {
		res.Harness = "mode yield needs the binary built from the instrumented copy (tag verifyield)"
		return func() {}, false
	}
	ys := installYieldParked(sim, seed)
	return func() {
		fired, sites := ys.stop()
		for i := 0; i < fired; i++ {
			sim.Fault("goroutine-parked-at-sync-operation")
		}
		sim.Note("scheduling points: %d parks at %d active sites", fired, sites)
		sim.Run(func() bool { return sim.Enabled() == 0 })
	}, true
}
