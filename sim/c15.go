package sim

import (
	"context"
	"encoding/json"
	"errors"
	"fmt"
	"sort"
	"strings"
	"sync"
	"testing"
	"time"

	"seata.apache.org/seata-go/pkg/protocol/branch"
	"seata.apache.org/seata-go/pkg/rm"

	"verif/simkit"
	"verif/simnet"
	"verif/simtc"
)

// C15 — every coordinator phase-two request gets one correctly addressed,
// truthful reply. Scripted resource managers registered through the public
// RegisterResourceManager return any status / error / panic; requests are
// delivered concurrently on one session and complete in tape-chosen order.

type C15Req struct {
	Type   byte   `json:"type"` // branch type: 0 AT, 1 TCC, 3 XA, others = no manager
	Commit bool   `json:"commit"`
	Xid    int    `json:"xid"` // index into a small xid pool
	Branch int64  `json:"branch"`
	Res    string `json:"res"`
	Status byte   `json:"status"` // what the manager returns
	Out    string `json:"out"`    // ok | err | panic
}

type C15Episode struct {
	Reqs []C15Req `json:"reqs"`
}

type C15Plan struct {
	Episodes []C15Episode `json:"episodes"`
	Tape     []int        `json:"tape"`
}

func genC15(seed uint64, tier string) *C15Plan {
	g := simkit.NewGen(seed)
	n := 30
	if tier == "thorough" {
		n = 200
	}
	p := &C15Plan{}
	for i := 0; i < n; i++ {
		var e C15Episode
		k := g.Range(1, 10)
		for j := 0; j < k; j++ {
			r := C15Req{Type: byte(simkit.Pick(g, []int{0, 0, 1, 1, 3, 3, 2, 9})), Commit: g.Bool(), Xid: g.Intn(3),
				Branch: simkit.Pick(g, []int64{1, 2, 7001, 7002, 9007199254740993, 9223372036854775807, -5}),
				Res:    simkit.Pick(g, []string{"res-a", "res-b", "jdbc:mysql://h:3306/db", "", "héllo"}), Out: "ok"}
			if r.Commit {
				r.Status = byte(simkit.Pick(g, []int{5, 5, 5, 6, 7}))
			} else {
				r.Status = byte(simkit.Pick(g, []int{8, 8, 8, 9, 10}))
			}
			if g.Prob(0.1) {
				r.Status = byte(g.Intn(11)) // any status, even a nonsensical one: the reply must carry precisely it
			}
			if g.Prob(0.2) {
				r.Out = simkit.Pick(g, []string{"err", "err", "panic"})
			}
			// two requests of one episode that name the same branch in the same way
			// get the same scripted outcome: the order in which their manager calls
			// happen is the client's business, and replies are matched by message id
			for _, prev := range e.Reqs {
				if prev.Type == r.Type && prev.Commit == r.Commit && prev.Xid == r.Xid && prev.Branch == r.Branch && prev.Res == r.Res {
					r.Status, r.Out = prev.Status, prev.Out
					break
				}
			}
			e.Reqs = append(e.Reqs, r)
		}
		p.Episodes = append(p.Episodes, e)
	}
	return p
}

type c15Call struct {
	commit bool
	res    rm.BranchResource
}

type c15RM struct {
	bt    branch.BranchType
	sim   *simkit.Sim
	mu    *sync.Mutex
	calls *[]c15Call
	// script: key -> queue of outcomes
	script map[string][]C15Req
}

func keysOfScript(m map[string][]C15Req) []string {
	var ks []string
	for k, q := range m {
		ks = append(ks, fmt.Sprintf("%s x%d", k, len(q)))
	}
	sort.Strings(ks)
	return ks
}

func c15Key(commit bool, xid string, b int64, res string) string {
	return fmt.Sprintf("%v|%s|%d|%s", commit, xid, b, res)
}

func (m *c15RM) end(commit bool, r rm.BranchResource) (branch.BranchStatus, error) {
	m.mu.Lock()
	*m.calls = append(*m.calls, c15Call{commit, r})
	k := c15Key(commit, r.Xid, r.BranchId, r.ResourceId)
	q := m.script[k]
	var out C15Req
	if len(q) > 0 {
		out = q[0]
		m.script[k] = q[1:]
	} else {
		out = C15Req{Out: "unexpected"}
		m.sim.Note("manager of branch type %d called with %s, which no request of the episode explains (scripted: %v)", m.bt, k, keysOfScript(m.script))
	}
	m.mu.Unlock()
	// a sim point: the tape decides in which order concurrent managers finish
	m.sim.Park(fmt.Sprintf("rm|%d|%s", m.bt, k), "")
	switch out.Out {
	case "err":
		// what a manager reports comes from databases and applications: any text
		texts := []string{"scripted manager failure", "数据库连接失败: 死锁", "Verbindung zur Datenbank verloren – Zeitüberschreitung", strings.Repeat("é", 200), strings.Repeat("x", 700), "", "línea\n2\ttab", "🙂 rollback failed"}
		u := uint64(r.BranchId)
		return branch.BranchStatus(out.Status), errors.New(texts[u%uint64(len(texts))])
	case "panic":
		panic("scripted manager panic")
	case "unexpected":
		return 0, errors.New("unexpected call")
	}
	return branch.BranchStatus(out.Status), nil
}

func (m *c15RM) BranchCommit(ctx context.Context, r rm.BranchResource) (branch.BranchStatus, error) {
	return m.end(true, r)
}
func (m *c15RM) BranchRollback(ctx context.Context, r rm.BranchResource) (branch.BranchStatus, error) {
	return m.end(false, r)
}
func (m *c15RM) BranchRegister(ctx context.Context, p rm.BranchRegisterParam) (int64, error) {
	return 0, errors.New("unused")
}
func (m *c15RM) BranchReport(ctx context.Context, p rm.BranchReportParam) error { return nil }
func (m *c15RM) LockQuery(ctx context.Context, p rm.LockQueryParam) (bool, error) {
	return false, nil
}
func (m *c15RM) RegisterResource(resource rm.Resource) error   { return nil }
func (m *c15RM) UnregisterResource(resource rm.Resource) error { return nil }
func (m *c15RM) GetCachedResources() *sync.Map                 { return &sync.Map{} }
func (m *c15RM) GetBranchType() branch.BranchType              { return m.bt }

func runC15(t *testing.T, seed uint64, planJSON []byte, tier string) (res *Result) {
	res = &Result{}
	var plan *C15Plan
	var tape *simkit.Tape
	if planJSON != nil {
		plan = &C15Plan{}
		if err := json.Unmarshal(planJSON, plan); err != nil {
			res.InvalidPlan = err.Error()
			return res
		}
		tape = simkit.ReplayTape(plan.Tape)
	} else {
		plan = genC15(seed, tier)
		tape = simkit.NewTape(seed)
	}
	res.Harness = runBubbleP(t, plan, func(t *testing.T) {
		w := bootRemoting(seed, tape, BootCfg{LoadBalance: "RandomLoadBalance", CommitRetry: 1, RollbackRetry: 1}, simnet.Config{FragmentPct: 15, ParkWrites: true})
		sim, tc, net := w.Sim, w.TC, w.Net
		stopYield, yok := startParkedYield(sim, seed, res)
		if !yok {
			return
		}
		sim.Known = loadKnown("C15")
		sim.MaxStep = 1000000
		sim.MaxTime = 1000 * time.Hour
		tc.AutoP2 = false
		var mu sync.Mutex
		var calls []c15Call
		mgrs := map[byte]*c15RM{}
		for _, bt := range []branch.BranchType{branch.BranchTypeAT, branch.BranchTypeTCC, branch.BranchTypeXA} {
			m := &c15RM{bt: bt, sim: sim, mu: &mu, calls: &calls, script: map[string][]C15Req{}}
			mgrs[byte(bt)] = m
			rm.GetRmCacheInstance().RegisterResourceManager(m)
		}
		net.Open(TCAddr)
		sim.Run(func() bool { return tc.SessionIsTM(0) && sim.Enabled() == 0 })
		type ans struct {
			f   *simtc.Frame
			seq uint64
		}
		var answers []ans
		tc.OnBranchAnswer = func(sess int, f *simtc.Frame) { answers = append(answers, ans{f, sim.Seq()}) }
		// a frame of the client that the coordinator's decoder cannot read
		var garbled []string
		w.Net.OnUndecodable = func(sess int, raw []byte, err error) {
			garbled = append(garbled, fmt.Sprintf("%d bytes: %v", len(raw), err))
		}
		xids := []string{TCAddr + ":9001", TCAddr + ":9002", "192.168.7.7:8091:12"}

		for ei := range plan.Episodes {
			ep := &plan.Episodes[ei]
			answers = nil
			mu.Lock()
			calls = nil
			for _, m := range mgrs {
				m.script = map[string][]C15Req{}
			}
			mu.Unlock()
			ids := make([]int32, len(ep.Reqs))
			for i, r := range ep.Reqs {
				xid := xids[((r.Xid%3)+3)%3]
				if m := mgrs[r.Type]; m != nil {
					k := c15Key(r.Commit, xid, r.Branch, r.Res)
					m.script[k] = append(m.script[k], r)
				}
				b := &simtc.Branch{ID: r.Branch, Xid: xid, Type: r.Type, Resource: r.Res}
				ids[i] = tc.SendBranchEnd(b, r.Commit, []byte(fmt.Sprintf(`{"n":%d}`, i)), 0, nil)
			}
			// run until every expected reply arrived or the bound (RPC-timeout-free: replies are immediate) passed
			t0 := sim.Now()
			sim.Run(func() bool { return sim.Now()-t0 > 25*time.Second && sim.Enabled() == 0 })
			res.Episodes++
			byID := map[int32][]*simtc.Frame{}
			for _, a := range answers {
				byID[a.f.ID] = append(byID[a.f.ID], a.f)
			}
			for i, r := range ep.Reqs {
				xid := xids[((r.Xid%3)+3)%3]
				vv := func(clause, class, f string, a ...any) {
					sim.Violate("C15", clause, class, "episode %d request %d %+v (msg id %d): %s", ei, i, r, ids[i], fmt.Sprintf(f, a...))
				}
				got := byID[ids[i]]
				delete(byID, ids[i])
				okStatus := byte(simtc.BSPhaseTwoRollbacked)
				wantCode := simtc.TBranchRollbackResult
				if r.Commit {
					okStatus = simtc.BSPhaseTwoCommitted
					wantCode = simtc.TBranchCommitResult
				}
				if len(got) > 1 {
					vv("one-reply", "duplicate-reply", "%d replies for one request", len(got))
				}
				expectReply := mgrs[r.Type] != nil && r.Out == "ok"
				if expectReply {
					if len(got) == 0 {
						vv("one-reply", "missing-reply", "the manager returned status %d without error but no reply arrived", r.Status)
						continue
					}
					m := got[0].Body
					if m.Code != wantCode {
						vv("addressing", "wrong-reply-kind", "reply code %d, want %d", m.Code, wantCode)
					}
					if m.Xid != xid || m.BranchID != r.Branch {
						vv("addressing", "wrong-xid-or-branch", "reply names xid/branch %q/%d, request had %q/%d", m.Xid, m.BranchID, xid, r.Branch)
					}
					if m.Status != r.Status {
						vv("truthful-status", "status-mismatch", "reply status %d, the manager returned %d", m.Status, r.Status)
					}
				} else {
					for _, f := range got {
						// a failure is answered too, and to the same branch
						if f.Body.Code != wantCode {
							vv("addressing", "wrong-reply-kind", "reply code %d to a request whose manager failed, want %d", f.Body.Code, wantCode)
						}
						if f.Body.Xid != xid || f.Body.BranchID != r.Branch {
							vv("addressing", "wrong-xid-or-branch-in-failure-reply", "the reply to a request whose manager failed names xid/branch %q/%d, the request had %q/%d", f.Body.Xid, f.Body.BranchID, xid, r.Branch)
						}
						if f.Body.Status == okStatus {
							cls := "success-after-manager-" + r.Out
							if mgrs[r.Type] == nil {
								cls = "success-for-unknown-branch-type"
							}
							vv("no-false-success", cls, "a success status was reported although the manager outcome was %s", r.Out)
						}
					}
				}
				sig := fmt.Sprintf("type=%d commit=%v out=%s status=%d", r.Type, r.Commit, r.Out, r.Status)
				if len(ep.Reqs) > 1 {
					sig = "!" + sig
				}
				sim.State(sig)
			}
			if len(garbled) > 0 {
				sim.Violate("C15", "addressing", "reply-not-decodable", "episode %d: %d frame(s) of the client cannot be decoded by the coordinator (first: %s)", ei, len(garbled), garbled[0])
				garbled = nil
			}
			for id, fs := range byID {
				sim.Violate("C15", "one-reply", "unsolicited-reply", "episode %d: %d reply frame(s) with message id %d which matches no request", ei, len(fs), id)
			}
			// the manager must have been called exactly once per request of a known type
			mu.Lock()
			nc := len(calls)
			mu.Unlock()
			want := 0
			for _, r := range ep.Reqs {
				if mgrs[r.Type] != nil {
					want++
				}
			}
			if nc != want {
				sim.Violate("C15", "routing", "manager-call-count", "episode %d: %d manager calls for %d requests with a registered manager", ei, nc, want)
			}
			if len(res.Samples) < 2 {
				res.Samples = append(res.Samples, ep)
			}
			if len(sim.Violations()) > 0 {
				break
			}
		}
		plan.Tape = tape.Rec
		stopYield()
		finishResult(res, sim)
	})
	res.Plan, _ = json.Marshal(plan)
	res.Components = map[string]string{"pkg/remoting/processor/client (branch commit/rollback processors)": "real", "pkg/remoting/getty (listener, client, codec)": "real", "pkg/rm/rm_cache.go": "real", "resource managers": "scripted stubs registered through RegisterResourceManager (real TCC/AT/XA managers are exercised by C05, C01, C10, C11, C17)", "coordinator": "model (simtc)"}
	return res
}

func init() { engines["C15"] = runC15 }
