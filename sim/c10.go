package sim

import (
	"encoding/json"
	"fmt"
	"strings"
	"testing"
	"time"

	"verif/simdb"
	"verif/simkit"
	"verif/simtc"
)

// C10 — branch rollback is idempotent and blocks a late phase one.
//
// mode "retry": fault enumeration over the rollback transaction. A generated
// program commits locally and is rolled back fault-free (probe); the probe
// tells how many statements of each class the rollback transactions issue;
// the same program is then run once per (statement, fault kind) with the
// coordinator retrying cleanly, followed by 0..3 repeated deliveries.
//
// mode "late": the coordinator grants a branch registration and rolls the
// global transaction back at once, so that the branch rollback races the
// undo-log insert and the local COMMIT of phase one under every tape-chosen
// interleaving.

func runC10(t *testing.T, seed uint64, planJSON []byte, tier string) (res *Result) {
	mode := *flagMode
	if planJSON != nil {
		var probe struct {
			Mode string `json:"mode"`
		}
		json.Unmarshal(planJSON, &probe)
		mode = probe.Mode
	}
	if mode == "" {
		mode = []string{"retry", "late", "retry"}[seed%3]
	}
	if mode == "late" {
		return runC10Late(t, seed, planJSON, tier)
	}
	return runC10Retry(t, seed, planJSON, tier)
}

func c10Faults(counts map[string]int, tier string) []ATEpisode {
	var out []ATEpisode
	classes := []string{"begin", "select-for-update-undo", "select-for-update", "update", "insert", "delete", "delete-undo", "insert-undo", "commit"}
	for _, cl := range classes {
		for k := 1; k <= counts[cl]; k++ {
			kinds := []string{"error"}
			if tier == "thorough" || k == 1 {
				kinds = append(kinds, "badconn")
			}
			if cl == "commit" {
				kinds = append(kinds, "invalidconn")
			}
			for _, kind := range kinds {
				f := DBFault{Class: cl, Nth: k, Kind: kind}
				if kind == "error" {
					f.Num = 1205
				}
				out = append(out, ATEpisode{Fault: fmt.Sprintf("p2-db-%s:%s#%d", kind, cl, k), P2Faults: []DBFault{f}})
			}
		}
	}
	return out
}

func runC10Retry(t *testing.T, seed uint64, planJSON []byte, tier string) (res *Result) {
	res = &Result{}
	plan, tape := loadATPlan(seed, planJSON, tier, "rollback", res)
	if plan == nil {
		return res
	}
	plan.Mode = "retry"
	replaying := planJSON != nil
	g := simkit.NewGen(seed ^ 0xc10)
	if !replaying {
		plan.Episodes = plan.Episodes[:1]
		plan.Episodes[0].Outcome = "rollback"
		plan.Episodes[0].P2Faults = []DBFault{}
		plan.Episodes[0].Redeliver = g.Range(0, 3)
	}
	res.Harness = runBubbleP(t, plan, func(t *testing.T) {
		r := setupAT(seed, tape, plan, "C10", res)
		if r == nil {
			return
		}
		sim := r.w.Sim
		if len(plan.Episodes) == 0 {
			res.InvalidPlan = "no episode"
			return
		}
		tmpl := plan.Episodes[0]
		o := r.runEpisode(0, &plan.Episodes[0])
		if o == nil {
			return
		}
		r.checkC10Retry(o)
		r.recordState(o)
		if len(sim.Violations()) == 0 && o.done && !replaying {
			for _, fe := range c10Faults(r.w.Hook.Counts(), tier) {
				ep := tmpl
				ep.Fault, ep.P2Faults = fe.Fault, fe.P2Faults
				ep.Redeliver = g.Range(0, 3)
				plan.Episodes = append(plan.Episodes, ep)
			}
		}
		for i := 1; i < len(plan.Episodes) && len(sim.Violations()) == 0; i++ {
			ep := &plan.Episodes[i]
			o := r.runEpisode(i, ep)
			if o == nil {
				break
			}
			r.checkC10Retry(o)
			sim.State("!c10 fault=" + strings.SplitN(ep.Fault, "#", 2)[0] + fmt.Sprintf(" redeliver=%d", ep.Redeliver))
			if !o.done {
				break
			}
		}
		plan.Tape = tape.Rec
		finishResult(res, sim)
	})
	res.Plan, _ = json.Marshal(plan)
	res.Components = atComponents
	return res
}

// redeliver sends n further BranchRollback requests per branch (newest branch
// first, like a coordinator that lost the answers) and records the app-table
// state after each round.
func (r *atRun) redeliver(o *episodeObs, n int) {
	w := r.w
	g := w.TC.Globals[o.xid]
	if g == nil {
		return
	}
	for k := 0; k < n; k++ {
		pending := 0
		for i := len(g.Branches) - 1; i >= 0; i-- {
			b := g.Branches[i]
			if b.Status == simtc.BSPhaseOneFailed {
				continue
			}
			pending++
			var send func(attempt int)
			send = func(attempt int) {
				w.TC.SendBranchEnd(b, false, b.AppData, -1, func(status byte, answered bool) {
					if (!answered || status != simtc.BSPhaseTwoRollbacked) && attempt < 3 {
						// like the coordinator, try again after a failure
						w.Sim.Post(fmt.Sprintf("c10-redeliver-retry|%d", b.ID), time.Second, "", func() { send(attempt + 1) })
						return
					}
					pending--
				})
			}
			send(0)
		}
		t0 := w.Sim.Now()
		w.Sim.Run(func() bool { return pending == 0 || w.Sim.Now()-t0 > 600*time.Second })
		o.redelivered = append(o.redelivered, appSnapshot(w.Srv.Snapshot()))
	}
}

func (r *atRun) checkC10Retry(o *episodeObs) {
	w := r.w
	ep := o.ep
	cls := strings.SplitN(ep.Fault, "#", 2)[0]
	if cls == "" {
		cls = "fault-free"
	}
	cls += epFeatures(ep)
	if !o.done {
		r.violate("C10", "termination", "stuck-"+cls, "episode %d (%s): the global transaction never finished", o.idx, ep.Fault)
		return
	}
	g := w.TC.Globals[o.xid]
	if g == nil {
		return
	}
	j := w.Srv.JournalFrom(o.jstart)
	txns := splitLocalTxns(j)
	injected := false
	for _, e := range j {
		if strings.Contains(e.Err, "injected") {
			injected = true
		}
	}
	if ep.Fault != "" && !injected {
		w.Sim.Probe("c10-fault-not-reached")
	}
	if injected {
		w.Sim.Probe("c10-fault-injected")
	}
	// (1) the business statements themselves must have succeeded for the episode to say anything
	for _, b := range g.Branches {
		if b.Status == simtc.BSPhaseOneFailed {
			continue
		}
		// phase-two transactions of this branch in journal order
		var p2 []*localTxn
		for _, t := range txns {
			for _, e := range t.entries {
				if e.Class == "select-for-update-undo" && len(e.Args) > 0 {
					if bid, ok := argInt(e.Args[0]); ok && bid == b.ID {
						p2 = append(p2, t)
						break
					}
				}
			}
		}
		// no partial compensation: application writes of phase two only come from
		// committed transactions that also settle the undo log (delete it or leave a marker)
		for _, t := range p2 {
			if !t.committed || len(appWrites(t.writes)) == 0 {
				continue
			}
			settles := false
			for _, e := range t.entries {
				if (e.Class == "delete-undo" || e.Class == "insert-undo") && e.Err == "" {
					settles = true
				}
			}
			if !settles {
				r.violate("C10", "no-partial-compensation", "compensation-without-undo-log-settlement-"+cls, "episode %d (%s) branch %d: a rollback transaction committed %d application row write(s) without deleting the undo log in the same transaction", o.idx, ep.Fault, b.ID, len(appWrites(t.writes)))
			}
		}
		// answers: every delivery is answered Rollbacked except the one (at most)
		// that met the injected failure; the last one is Rollbacked
		failedDeliveries := b.P2Requests - len(b.P2Answers)
		for _, a := range b.P2Answers {
			if a != simtc.BSPhaseTwoRollbacked {
				failedDeliveries++
			}
		}
		allowed := 0
		if injected {
			allowed = 1
		}
		if failedDeliveries > allowed {
			r.violate("C10", "keeps-answering-rollbacked", "delivery-not-rollbacked-"+cls, "episode %d (%s) branch %d: %d of %d deliveries were not answered Rollbacked although only %d failure(s) were injected (answers %v)", o.idx, ep.Fault, b.ID, failedDeliveries, b.P2Requests, allowed, b.P2Answers)
		}
		if len(b.P2Answers) == 0 || b.P2Answers[len(b.P2Answers)-1] != simtc.BSPhaseTwoRollbacked {
			r.violate("C10", "retry-succeeds", "not-rollbacked-after-clean-retry-"+cls, "episode %d (%s) branch %d: after the single injected failure the coordinator retried fault-free (%d request(s)) but the last answer is not Rollbacked (answers %v)", o.idx, ep.Fault, b.ID, b.P2Requests, b.P2Answers)
		}
		if b.P2Requests < 1+ep.Redeliver {
			w.Sim.Probe("c10-fewer-deliveries-than-planned")
		}
		// undo log of the branch is gone (a global-finished marker may remain)
		for _, u := range w.UndoRows(atSchema) {
			if u[0] == o.xid && u[1] == fmt.Sprint(b.ID) && u[2] == "0" {
				r.violate("C10", "same-final-state", "undo-log-left-"+cls, "episode %d (%s) branch %d: after the successful rollback a normal undo_log row of the branch is still there", o.idx, ep.Fault, b.ID)
			}
		}
	}
	// same final state as one successful rollback = the initial application tables
	if d := simdb.Diff(appSnapshot(o.s0), appSnapshot(o.final)); len(d) > 0 {
		r.violate("C10", "same-final-state", "not-restored-"+cls, "episode %d (%s): after the retried rollback the tables differ from their initial contents: %s", o.idx, ep.Fault, diffSummary(d))
	}
	for k, s := range o.redelivered {
		if d := simdb.Diff(appSnapshot(o.s0), s); len(d) > 0 {
			r.violate("C10", "idempotent", fmt.Sprintf("changed-by-redelivery-%s", cls), "episode %d (%s): repeated delivery %d of the branch rollback changed the tables: %s", o.idx, ep.Fault, k+1, diffSummary(d))
			break
		}
	}
	if n := w.Srv.OpenTxnCount(); n > 0 {
		r.violate("C10", "no-partial-compensation", "transaction-left-open-"+cls, "episode %d (%s): %d local transaction(s) still open after the rollback settled", o.idx, ep.Fault, n)
	}
}

// ---- mode late ---------------------------------------------------------------------------------

func runC10Late(t *testing.T, seed uint64, planJSON []byte, tier string) (res *Result) {
	res = &Result{}
	plan, tape := loadATPlan(seed, planJSON, tier, "commit", res)
	if plan == nil {
		return res
	}
	plan.Mode = "late"
	if planJSON == nil {
		g := simkit.NewGen(seed ^ 0x1a7e)
		for i := range plan.Episodes {
			ep := &plan.Episodes[i]
			ep.Outcome = "commit"
			ep.StopOnErr = true
			nth := 1 + g.Intn(len(ep.Branches))
			ep.TCRules = []simtc.Rule{{Code: simtc.TBranchRegister, Nth: nth, Action: simtc.ActRollbackNow, Msg: simkit.Pick(g, []string{"", "x2", "x3", "x2"})}}
			if g.Prob(0.3) {
				// the coordinator has finished the global transaction: it refuses the
				// late "phase one failed" report of the blocked branch, every time
				for k := 1; k <= 6; k++ {
					ep.TCRules = append(ep.TCRules, simtc.Rule{Code: simtc.TBranchReport, Nth: k, Action: simtc.ActFail, Status: simtc.BSPhaseOneFailed})
				}
			}
			ep.Redeliver = g.Range(0, 2)
		}
	}
	res.Harness = runBubbleP(t, plan, func(t *testing.T) {
		r := setupAT(seed, tape, plan, "C10", res)
		if r == nil {
			return
		}
		sim := r.w.Sim
		for i := range plan.Episodes {
			ep := &plan.Episodes[i]
			o := r.runEpisode(i, ep)
			if o == nil {
				break
			}
			r.checkC10Late(o)
			r.recordState(o)
			if len(sim.Violations()) > 0 || !o.done {
				break
			}
		}
		plan.Tape = tape.Rec
		finishResult(res, sim)
	})
	res.Plan, _ = json.Marshal(plan)
	res.Components = atComponents
	return res
}

func (r *atRun) checkC10Late(o *episodeObs) {
	w := r.w
	ep := o.ep
	cls := "late" + epFeatures(ep)
	if !o.done {
		r.violate("C10", "termination", "stuck-"+cls, "episode %d: the global transaction never finished", o.idx)
		return
	}
	g := w.TC.Globals[o.xid]
	if g == nil {
		return
	}
	j := w.Srv.JournalFrom(o.jstart)
	txns := splitLocalTxns(j)
	for _, b := range g.Branches {
		// the marker / undo transactions of this branch
		var p2 []*localTxn
		for _, t := range txns {
			for _, e := range t.entries {
				if e.Class == "select-for-update-undo" && len(e.Args) > 0 {
					if bid, ok := argInt(e.Args[0]); ok && bid == b.ID {
						p2 = append(p2, t)
						break
					}
				}
			}
		}
		if len(p2) == 0 {
			continue
		}
		var marker *localTxn
		for _, t := range p2 {
			if !t.committed {
				continue
			}
			for _, e := range t.entries {
				if e.Class == "insert-undo" && e.Err == "" {
					marker = t
				}
			}
		}
		// phase one of this branch: the local transaction that tried to insert
		// (or inserted) the branch's undo log
		var p1 *localTxn
		for _, t := range txns {
			isP2 := false
			for _, q := range p2 {
				if q == t {
					isP2 = true
				}
			}
			if isP2 {
				continue
			}
			for _, e := range t.entries {
				if e.Class == "insert-undo" && len(e.Args) > 0 {
					if bid, ok := argInt(e.Args[0]); ok && bid == b.ID {
						p1 = t
					}
				}
			}
		}
		rolled := len(b.P2Answers) > 0 && b.P2Answers[len(b.P2Answers)-1] == simtc.BSPhaseTwoRollbacked
		order := "no-marker"
		if marker != nil {
			order = "marker"
			w.Sim.Probe("c10-marker-written")
			if p1 != nil && p1.committed && p1.commitSeq > marker.commitSeq {
				r.violate("C10", "marker-blocks-late-phase-one", "late-commit-after-marker-"+cls, "episode %d branch %d: the branch rollback found no undo log and committed its marker, yet the phase-one local transaction of the branch committed afterwards (%d application row write(s))", o.idx, b.ID, len(appWrites(p1.writes)))
			}
			if p1 != nil && !p1.committed {
				w.Sim.Probe("c10-late-phase-one-blocked")
				// the caller must have seen the failure
				anyErr := o.gerr != nil
				for _, sr := range o.stmts {
					if sr.Err != nil {
						anyErr = true
					}
				}
				if !anyErr {
					r.violate("C10", "late-commit-fails", "blocked-commit-reported-ok-"+cls, "episode %d branch %d: the late phase-one local transaction did not commit but neither its statements, its Commit nor the global transaction returned an error", o.idx, b.ID)
				}
			}
		}
		if p1 != nil && p1.committed {
			w.Sim.Probe("c10-phase-one-committed-before-rollback")
		}
		w.Sim.State(fmt.Sprintf("!c10 late order=%s p1=%v committed=%v rolled=%v attempts=%d", order, p1 != nil, p1 != nil && p1.committed, rolled, len(p2)))
		// whatever the interleaving: a branch answered Rollbacked has nothing committed left
		if rolled {
			if p1 != nil && p1.committed {
				for _, wr := range appWrites(p1.writes) {
					fin := o.final[wr.Table][wr.Key]
					was := o.s0[wr.Table][wr.Key]
					if !rowsSame(fin, was) {
						r.violate("C10", "rollbacked-means-nothing-left", "phase-one-survives-rollback-"+cls, "episode %d branch %d: the branch answered Rollbacked but row %s[%s] written by its phase one is %s (initially %s)", o.idx, b.ID, wr.Table, wr.Key, simdb.FormatRow(fin), simdb.FormatRow(was))
						break
					}
				}
			}
		}
	}
	for k, s := range o.redelivered {
		_ = s
		_ = k
	}
	if n := w.Srv.OpenTxnCount(); n > 0 {
		r.violate("C10", "no-partial-compensation", "transaction-left-open-"+cls, "episode %d: %d local transaction(s) still open after everything settled", o.idx, n)
	}
}

func init() { engines["C10"] = runC10 }
