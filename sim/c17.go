package sim

import (
	"context"
	"database/sql"
	"encoding/json"
	"fmt"
	"regexp"
	"sort"
	"strconv"
	"strings"
	"testing"
	"time"

	"verif/simdb"
	"verif/simkit"
	"verif/simnet"
	"verif/simtc"
)

// C17 — XA branches follow the XA protocol; phase two addresses the prepared branch.
//
// A generated program runs in XA mode inside a global transaction (autocommit
// statements = one branch each, or an explicit local transaction); the
// database model keeps the XA state machine of every connection and journals
// every XA command. A fault-free probe is followed by one episode per fault
// position (each XA command, the business statement, registration refusal).
// Mode "foreign": phase two arrives for a branch this process never saw
// (prepared by another process whose connection is gone).

type C17Plan struct {
	Mode     string      `json:"mode"` // enum | foreign
	Cfg      ATCfg       `json:"cfg"`
	Opts     GenOpts     `json:"opts"`
	Tables   []TableDef  `json:"tables"`
	Episodes []ATEpisode `json:"episodes"`
	// foreign mode
	ForeignCommit bool  `json:"foreign_commit,omitempty"`
	ForeignBranch int64 `json:"foreign_branch,omitempty"`
	ForeignXidNo  int   `json:"foreign_xid_no,omitempty"`
	Tape          []int `json:"tape"`
}

var xaCmdRe = regexp.MustCompile(`(?i)^\s*XA\s+(START|END|PREPARE|COMMIT|ROLLBACK)\s+'([^']*)'(.*)$`)

type xaCmd struct {
	seq  uint64
	conn int
	cmd  string
	id   string
	rest string
	err  string
	idx  int
}

func c17Faults(counts map[string]int, regs int, tier string) []ATEpisode {
	var out []ATEpisode
	for _, cl := range []string{"xa-start", "xa-end", "xa-prepare", "insert", "update", "delete", "xa-commit", "xa-rollback"} {
		for k := 1; k <= counts[cl]; k++ {
			if k > 2 && tier != "thorough" {
				break
			}
			kinds := []string{"error"}
			if tier == "thorough" || k == 1 {
				kinds = append(kinds, "badconn")
			}
			for _, kind := range kinds {
				out = append(out, ATEpisode{Fault: fmt.Sprintf("db-%s:%s#%d", kind, cl, k), DBFaults: []DBFault{{Class: cl, Nth: k, Kind: kind, Num: 1205}}})
			}
			if cl == "insert" || cl == "update" || cl == "delete" {
				// the statement fails (duplicate key), the application carries on and
				// lets the global transaction commit (autocommit programs only)
				out = append(out, ATEpisode{Fault: fmt.Sprintf("db-error:%s#%d+app-continues", cl, k), AppContinues: true, DBFaults: []DBFault{{Class: cl, Nth: k, Kind: "error", Num: 1062}}})
			}
		}
	}
	for k := 1; k <= regs && k <= 2; k++ {
		out = append(out, ATEpisode{Fault: fmt.Sprintf("register-fail#%d", k), TCRules: []simtc.Rule{{Code: simtc.TBranchRegister, Nth: k, Action: simtc.ActFail}}})
		out = append(out, ATEpisode{Fault: fmt.Sprintf("register-fail-nocode#%d", k), TCRules: []simtc.Rule{{Code: simtc.TBranchRegister, Nth: k, Action: simtc.ActFailNoCode}}})
	}
	// a failing business statement makes the client end the branch with failure
	// and roll it back in phase one: a second fault at those commands
	for _, cl := range []string{"insert", "update", "delete"} {
		if counts[cl] == 0 {
			continue
		}
		for _, second := range []string{"xa-end", "xa-rollback"} {
			for _, kind := range []string{"error", "badconn"} {
				out = append(out, ATEpisode{Fault: fmt.Sprintf("db-error:%s#1+db-%s:%s#1", cl, kind, second), DBFaults: []DBFault{{Class: cl, Nth: 1, Kind: "error", Num: 1205}, {Class: second, Nth: 1, Kind: kind, Num: 1205}}})
			}
		}
		break
	}
	return out
}

func runC17(t *testing.T, seed uint64, planJSON []byte, tier string) (res *Result) {
	res = &Result{}
	var plan *C17Plan
	var tape *simkit.Tape
	if planJSON != nil {
		plan = &C17Plan{}
		if err := json.Unmarshal(planJSON, plan); err != nil {
			res.InvalidPlan = err.Error()
			return res
		}
		if len(plan.Tables) == 0 || len(plan.Episodes) == 0 {
			res.InvalidPlan = "no tables / episodes"
			return res
		}
		tape = simkit.ReplayTape(plan.Tape)
	} else {
		mode := *flagMode
		if mode == "" {
			mode = []string{"enum", "enum", "foreign"}[seed%3]
		}
		ap := genATPlan(seed, tier, "mixed")
		ap.Cfg.ServerVersion = []string{"8.0.30", "8.0.28", "8.0.30", "5.7.40"}[(seed/3)%4]
		if ap.Cfg.ServerVersion != "8.0.30" {
			// a session of these servers accepts nothing while it holds a prepared
			// branch: two XA branches cannot share one pinned connection there
			ap.Opts.DedicatedConn = false
		}
		plan = &C17Plan{Mode: mode, Cfg: ap.Cfg, Opts: ap.Opts, Tables: ap.Tables, Episodes: ap.Episodes[:1]}
		plan.Episodes[0].StopOnErr = true
		// (an application that commits after a statement error is outside the
		// episodes of this engine: with injected faults the failed statement may
		// already have been applied when its image query fails)
		plan.Opts.ContinueAfterError = false
		plan.Episodes[0].RetryOnce = plan.Opts.DedicatedConn
		// XA branches of one global transaction do not share row locks: keep the
		// branches of a program on different tables (one branch per table)
		{
			seen := map[string]bool{}
			var keep []ATBranch
			for _, br := range plan.Episodes[0].Branches {
				tabs := map[string]bool{}
				for _, st := range br.Stmts {
					for _, t := range plan.Tables {
						if strings.Contains(st.SQL, " "+t.Name+" ") {
							tabs[t.Name] = true
						}
					}
				}
				clash := false
				for t := range tabs {
					if seen[t] {
						clash = true
					}
				}
				if clash {
					continue
				}
				for t := range tabs {
					seen[t] = true
				}
				keep = append(keep, br)
			}
			plan.Episodes[0].Branches = keep
		}
		g := simkit.NewGen(seed ^ 0xc17)
		plan.ForeignCommit = g.Bool()
		plan.ForeignBranch = int64(g.Range(1, 1<<40))
		plan.ForeignXidNo = g.Range(1, 1<<30)
		tape = simkit.NewTape(seed)
	}
	replaying := planJSON != nil
	res.Harness = runBubbleP(t, plan, func(t *testing.T) {
		ap := &ATPlan{Mode: "mixed", Cfg: plan.Cfg, Opts: plan.Opts, Tables: plan.Tables, Episodes: plan.Episodes}
		w := bootAT(seed, tape, plan.Cfg, simnet.Config{FragmentPct: 10})
		sim := w.Sim
		sim.Known = loadKnown("C17")
		sim.MaxStep = 3000000
		sim.MaxTime = 100000 * time.Hour
		r := &atRun{w: w, plan: ap, prop: "C17", res: res, keyText: map[string]string{}}
		w.CreateUndoLog(atSchema)
		// reference server for the expected committed data
		srvB := simdb.NewServer("simdb1", plan.Cfg.ServerVersion)
		applyServerCfg(srvB, plan.Cfg)
		c16DriverSeq++
		nameB := fmt.Sprintf("simdb-c17-bare-%d", c16DriverSeq)
		sql.Register(nameB, &simdb.Driver{Srv: srvB, NoHook: true})
		for i := range plan.Tables {
			for _, s := range []*simdb.Server{w.Srv, srvB} {
				if err := plan.Tables[i].install(s, atSchema); err != nil {
					res.InvalidPlan = "table " + plan.Tables[i].Name + ": " + err.Error()
					return
				}
			}
		}
		w.Net.Open(TCAddr)
		sim.Run(func() bool { return w.TC.SessionIsTM(0) && sim.Enabled() == 0 })
		dsn := "root:pw@tcp(simdb1:3306)/" + atSchema + simDSNParams
		var err error
		ok := runOnActor(sim, "open-xa-ds", 300*time.Second, func() {
			r.db, err = sql.Open("seata-xa-sim", dsn)
			if err == nil {
				err = r.db.Ping()
			}
		})
		if !ok || err != nil {
			res.Harness = fmt.Sprintf("cannot open the XA data source: done=%v err=%v", ok, err)
			return
		}
		dbB, _ := sql.Open(nameB, dsn)
		if plan.Mode == "foreign" {
			r.c17Foreign(plan)
			plan.Tape = tape.Rec
			finishResult(res, sim)
			return
		}
		tmpl := plan.Episodes[0]
		run := func(i int) bool {
			ep := &plan.Episodes[i]
			ap.Episodes = plan.Episodes
			o := r.runEpisode(i, ep)
			if o == nil {
				return false
			}
			// expected data of a committed program
			var want simdb.Snapshot
			var refRes []stmtRes
			{
				for k := range plan.Tables {
					plan.Tables[k].load(srvB, atSchema)
				}
				refDB := &atRun{w: w, plan: ap, prop: "none", res: res, db: dbB}
				var outB []stmtRes
				refEp := ep
				if ep.AppContinues {
					// the plain run leaves out the statements that failed
					cp := *ep
					cp.Branches = nil
					for bi, br := range ep.Branches {
						nb := br
						nb.Stmts = nil
						for si, st := range br.Stmts {
							failed := false
							for _, sr := range o.stmts {
								if sr.Branch == bi && sr.Idx == si && sr.Err != nil {
									failed = true
								}
							}
							if !failed {
								nb.Stmts = append(nb.Stmts, st)
							}
						}
						if br.Explicit && len(nb.Stmts) != len(br.Stmts) {
							// (an explicit local transaction is rolled back by the
							// application when one of its statements fails)
							nb.Stmts = nil
						}
						cp.Branches = append(cp.Branches, nb)
					}
					refEp = &cp
				}
				refDB.runBusiness(context.Background(), refEp, &outB)
				refRes = outB
				if ep.Outcome == "commit" {
					want = appSnapshot(srvB.Snapshot())
				}
			}
			r.checkC17(o, want, refRes)
			if n := w.Srv.AbortLeftovers(); n > 0 {
				// judged above; must not block the rows of the next episode
				sim.Probe("c17-leftover-branch-or-transaction-aborted")
			}
			sim.State("!c17 " + strings.SplitN(ep.Fault, "#", 2)[0] + " outcome=" + ep.Outcome + fmt.Sprintf(" explicit=%v", len(ep.Branches) > 0 && ep.Branches[0].Explicit))
			return o.done
		}
		if !run(0) {
			plan.Tape = tape.Rec
			finishResult(res, sim)
			return
		}
		if len(sim.Violations()) == 0 && !replaying {
			counts := w.Hook.Counts()
			regs := 0
			for _, rec := range w.TC.Log {
				if rec.In && rec.F.Body != nil && rec.F.Body.Code == simtc.TBranchRegister {
					regs++
				}
			}
			for _, fe := range c17Faults(counts, regs, tier) {
				ep := tmpl
				ep.Fault, ep.DBFaults, ep.TCRules = fe.Fault, fe.DBFaults, fe.TCRules
				if fe.AppContinues {
					if (len(ep.Branches) > 0 && ep.Branches[0].Explicit) || ep.Outcome != "commit" {
						continue
					}
					ep.AppContinues, ep.StopOnErr, ep.RetryOnce = true, false, false
				}
				plan.Episodes = append(plan.Episodes, ep)
			}
		}
		for i := 1; i < len(plan.Episodes) && len(sim.Violations()) == 0; i++ {
			if !run(i) {
				break
			}
		}
		plan.Tape = tape.Rec
		if len(res.Samples) < 1 {
			res.Samples = append(res.Samples, map[string]any{"tables": plan.Tables, "episode": plan.Episodes[0]})
		}
		finishResult(res, sim)
	})
	res.Plan, _ = json.Marshal(plan)
	res.Components = atComponents
	return res
}

func xaCommands(j []simdb.JEntry) []xaCmd {
	var out []xaCmd
	for i, e := range j {
		if m := xaCmdRe.FindStringSubmatch(e.SQL); m != nil {
			out = append(out, xaCmd{seq: e.Seq, conn: e.Conn, cmd: strings.ToUpper(m[1]), id: m[2], rest: strings.TrimSpace(m[3]), err: e.Err, idx: i})
		}
	}
	return out
}

func (r *atRun) checkC17(o *episodeObs, want simdb.Snapshot, ref []stmtRes) {
	w := r.w
	ep := o.ep
	cls := strings.SplitN(ep.Fault, "#", 2)[0]
	if cls == "" {
		cls = "fault-free"
	}
	explicit := len(ep.Branches) > 0 && ep.Branches[0].Explicit
	if explicit {
		cls += "-explicit"
	} else {
		cls += "-autocommit"
	}
	if !o.done {
		r.violate("C17", "termination", "stuck-"+cls, "episode %d (%s): the global transaction never finished", o.idx, ep.Fault)
		return
	}
	g := w.TC.Globals[o.xid]
	j := w.Srv.JournalFrom(o.jstart)
	cmds := xaCommands(j)
	byID := map[string][]xaCmd{}
	for _, c := range cmds {
		byID[c.id] = append(byID[c.id], c)
	}
	granted := map[string]*simtc.Branch{}
	if g != nil {
		for _, b := range g.Branches {
			granted[fmt.Sprintf("%s-%d", o.xid, b.ID)] = b
		}
	}
	anyErr := o.gerr != nil
	for _, sr := range o.stmts {
		if sr.Err != nil {
			anyErr = true
			if strings.Contains(sr.Err.Error(), "PANIC out of") {
				r.violate("C17", "error-surfaces", "panic-instead-of-error-"+cls, "episode %d (%s): branch %d statement %d panicked through database/sql instead of returning an error: %v", o.idx, ep.Fault, sr.Branch, sr.Idx, sr.Err)
			}
		}
	}
	if o.gerr != nil && strings.Contains(o.gerr.Error(), "panic") {
		w.Sim.Probe("c17-global-transaction-saw-panic")
	}
	injected := false
	for _, e := range j {
		if strings.Contains(e.Err, "injected") {
			injected = true
		}
	}
	tcRefused := false
	for _, rule := range ep.TCRules {
		if rule.Code == simtc.TBranchRegister {
			tcRefused = true
		}
	}
	if injected || tcRefused {
		w.Sim.Probe("c17-fault-met")
	} else if ep.Fault != "" {
		w.Sim.Probe("c17-fault-not-reached")
	}
	// (1) every business write of the program happened inside an ACTIVE XA branch
	state := map[int]string{} // conn -> xa state as implied by successful commands
	curID := map[int]string{}
	ci := 0
	nBusiness := 0
	stmtFailedIn := map[string]bool{} // XA identifier -> a business statement failed inside that branch
	for i, e := range j {
		for ci < len(cmds) && cmds[ci].idx == i {
			c := cmds[ci]
			ci++
			if c.err != "" {
				continue
			}
			switch c.cmd {
			case "START":
				state[c.conn], curID[c.conn] = "ACTIVE", c.id
			case "END":
				state[c.conn] = "IDLE"
			case "PREPARE":
				state[c.conn] = "PREPARED"
			case "COMMIT", "ROLLBACK":
				if curID[c.conn] == c.id {
					state[c.conn], curID[c.conn] = "", ""
				}
			}
		}
		if e.Kind == "CLOSE" {
			state[e.Conn], curID[e.Conn] = "", ""
		}
		if (e.Class == "insert" || e.Class == "update" || e.Class == "delete") && e.Err != "" && state[e.Conn] == "ACTIVE" {
			stmtFailedIn[curID[e.Conn]] = true
		}
		if (e.Class == "insert" || e.Class == "update" || e.Class == "delete") && e.Err == "" && !r.isBare(e) {
			nBusiness++
			if state[e.Conn] != "ACTIVE" {
				r.violate("C17", "inside-xa-branch", "statement-outside-xa-branch-"+cls, "episode %d (%s): the business statement %q ran on connection c%d while that connection had no active XA branch (state %q)", o.idx, ep.Fault, e.SQL, e.Conn, state[e.Conn])
				break
			}
		}
	}
	// (2) identifiers and sequences
	ids := keysOf(byID)
	for _, id := range ids {
		seq := byID[id]
		b := granted[id]
		if b == nil {
			// identifier must decode to the global xid and a branch id the coordinator assigned
			k := strings.LastIndex(id, "-")
			bid := int64(-1)
			if k >= 0 {
				bid, _ = strconv.ParseInt(id[k+1:], 10, 64)
			}
			r.violate("C17", "identifier", "unknown-identifier-"+cls, "episode %d (%s): XA identifier %q is not <global xid>-<branch id> of a branch the coordinator registered for %s (parsed branch id %d)", o.idx, ep.Fault, id, o.xid, bid)
			continue
		}
		var okSeq []string
		for _, c := range seq {
			if c.err == "" {
				okSeq = append(okSeq, c.cmd)
			} else {
				okSeq = append(okSeq, c.cmd+"!")
			}
		}
		text := strings.Join(okSeq, " ")
		// registration precedes XA START
		for _, c := range seq {
			if c.cmd == "START" && c.seq < b.RegSeq {
				r.violate("C17", "register-before-start", "start-before-register-"+cls, "episode %d (%s): XA START %q (event %d) precedes the registration of branch %d (event %d)", o.idx, ep.Fault, id, c.seq, b.ID, b.RegSeq)
			}
		}
		// legal sequence over the successful commands
		var succ []string
		for _, c := range seq {
			if c.err == "" {
				succ = append(succ, c.cmd)
			}
		}
		s := strings.Join(succ, " ")
		legal := map[string]bool{
			"":                         true, // START itself failed
			"START":                    true, // branch dropped with its connection (killed before END) - judged below
			"START END PREPARE COMMIT": true, "START END PREPARE ROLLBACK": true,
			"START END ROLLBACK": true, "START END PREPARE": true, "START END": true,
		}
		if !legal[s] {
			r.violate("C17", "legal-sequence", "illegal-xa-sequence-"+cls, "episode %d (%s): the successful XA commands for %q are [%s] (all: %s)", o.idx, ep.Fault, id, s, text)
			continue
		}
		prepared := strings.Contains(s, "PREPARE")
		resolved := strings.HasSuffix(s, "COMMIT") || strings.HasSuffix(s, "ROLLBACK")
		committed := strings.HasSuffix(s, "COMMIT")
		if !prepared && committed {
			r.violate("C17", "no-commit-without-prepare", "commit-without-prepare-"+cls, "episode %d (%s): %q was committed without a successful PREPARE: %s", o.idx, ep.Fault, id, text)
		}
		// after everything settled nothing stays unresolved
		phaseTwoFault := false
		for _, f := range ep.DBFaults {
			if f.Class == "xa-commit" || f.Class == "xa-rollback" {
				phaseTwoFault = true
			}
		}
		// (a failure of phase two itself leaves the branch to the coordinator's
		// retry policy, which the property does not constrain)
		if !resolved && !phaseTwoFault {
			open := false
			for _, p := range w.Srv.PreparedXA() {
				if p == id {
					open = true
				}
			}
			for _, cs := range w.Srv.ConnStates() {
				if cs.XAState != "" && !cs.Closed && curID[cs.ID] == id {
					open = true
				}
			}
			if open {
				r.violate("C17", "resolved", "branch-left-unresolved-"+cls, "episode %d (%s): after the global transaction ended (%s) the XA branch %q is still %s in the database: %s", o.idx, ep.Fault, ep.Outcome, id, map[bool]string{true: "prepared", false: "open"}[prepared], text)
			}
		}
		// outcome
		if ep.Fault == "" && o.gerr == nil && !anyErr {
			if ep.Outcome == "commit" && !committed {
				r.violate("C17", "phase-two-same-identifier", "not-committed-"+cls, "episode %d: the global transaction committed but branch %q was not committed with its identifier: %s (answers %v)", o.idx, id, text, b.P2Answers)
			}
			if ep.Outcome == "rollback" && committed {
				r.violate("C17", "phase-two-same-identifier", "committed-despite-rollback-"+cls, "episode %d: the global transaction rolled back but branch %q was committed: %s", o.idx, id, text)
			}
		}
		// a failure before a successful prepare is never followed by a commit
		failedBeforePrepare := false
		for _, c := range seq {
			if c.err != "" && (c.cmd == "START" || c.cmd == "END" || c.cmd == "PREPARE") {
				failedBeforePrepare = true
			}
		}
		if stmtFailedIn[id] && !explicit {
			// (autocommit: the statement is the branch)
			failedBeforePrepare = true
		}
		if failedBeforePrepare && !committed {
			for _, c := range seq {
				if c.cmd == "COMMIT" {
					r.violate("C17", "failure-means-rollback", "commit-attempted-after-failure-"+cls, "episode %d (%s): branch %q met a failure before PREPARE succeeded, and XA COMMIT was sent for it afterwards (the database answered %q): %s", o.idx, ep.Fault, id, c.err, text)
					break
				}
			}
		}
		if failedBeforePrepare && committed {
			r.violate("C17", "failure-means-rollback", "commit-after-failure-"+cls, "episode %d (%s): branch %q met a failure before PREPARE succeeded and was committed afterwards: %s", o.idx, ep.Fault, id, text)
		}
	}
	// branches the coordinator granted but that never started are fine (registration then failure)
	// (3) a failure is returned to the caller
	phaseOneFault := false
	for _, f := range ep.DBFaults {
		if f.Class != "xa-commit" && f.Class != "xa-rollback" {
			phaseOneFault = true
		}
	}
	// a connection lost before XA START ran is retried by database/sql on another
	// connection (nothing had been applied): the caller legitimately sees success
	retried := false
	for i, e := range j {
		if strings.Contains(e.Err, "injected") && strings.Contains(e.Err, "not applied") && strings.HasPrefix(e.Class, "xa-start") {
			for _, e2 := range j[i+1:] {
				if e2.Class == "xa-start" && e2.Err == "" && e2.Conn != e.Conn {
					retried = true
				}
			}
		}
	}
	if retried {
		w.Sim.Probe("c17-start-retried-by-database-sql")
	}
	if (injected && phaseOneFault || tcRefused) && !anyErr && !retried {
		r.violate("C17", "error-surfaces", "no-error-"+cls, "episode %d (%s): a failure was injected before the branch was prepared but neither a statement, the local commit nor the global transaction returned an error", o.idx, ep.Fault)
	}
	// (3b) without any injected failure the program runs as it does on the plain driver
	if ep.Fault == "" {
		for i, sr := range o.stmts {
			if i < len(ref) && sr.Err != nil && ref[i].Err == nil {
				r.violate("C17", "error-surfaces", "spurious-error-"+cls, "episode %d: no failure was injected and the plain driver runs the program, but step %d (branch %d statement %d) failed in XA mode: %v", o.idx, i, sr.Branch, sr.Idx, sr.Err)
				break
			}
		}
	}
	// (4) data
	final := appSnapshot(o.final)
	switch {
	case ep.AppContinues:
		if o.gerr == nil && want != nil {
			if d := simdb.Diff(want, final); len(d) > 0 {
				r.violate("C17", "committed-data", "data-differs-from-plain-run-"+cls, "episode %d (%s): the application went on after the failed statement and the global transaction committed, but the tables differ from a plain execution of the statements that succeeded (plain -> xa): %s", o.idx, ep.Fault, diffSummary(d))
			}
		}
	case ep.Outcome == "commit" && ep.Fault == "" && !anyErr && want != nil:
		if d := simdb.Diff(want, final); len(d) > 0 {
			r.violate("C17", "committed-data", "data-differs-from-plain-run-"+cls, "episode %d: after the committed global transaction the tables differ from a plain execution of the program (plain -> xa): %s", o.idx, diffSummary(d))
		}
	case ep.Outcome == "rollback" || (anyErr && phaseOneFault) || tcRefused:
		if d := simdb.Diff(appSnapshot(o.s0), final); len(d) > 0 {
			r.violate("C17", "failure-means-rollback", "residue-"+cls, "episode %d (%s): the global transaction did not commit but the tables differ from their initial contents: %s", o.idx, ep.Fault, diffSummary(d))
		}
	}
	if nBusiness > 0 {
		w.Sim.Probe("c17-business-statement-ran")
	}
}

func (r *atRun) isBare(e simdb.JEntry) bool { return false }

// c17Foreign: phase two for a branch prepared elsewhere.
func (r *atRun) c17Foreign(plan *C17Plan) {
	w := r.w
	sim := w.Sim
	xid := fmt.Sprintf("%s:%d", TCAddr, plan.ForeignXidNo)
	id := fmt.Sprintf("%s-%d", xid, plan.ForeignBranch)
	cls := "foreign-commit"
	if !plan.ForeignCommit {
		cls = "foreign-rollback"
	}
	for i := range plan.Tables {
		plan.Tables[i].load(w.Srv, atSchema)
	}
	s0 := appSnapshot(w.Srv.Snapshot())
	// the other process: prepare a branch on its own connection, then vanish
	ctx := context.Background()
	conn, err := w.Bare.Conn(ctx)
	if err != nil {
		r.res.Harness = err.Error()
		return
	}
	ep := &plan.Episodes[0]
	var stmts []ATStmt
	for _, br := range ep.Branches {
		stmts = append(stmts, br.Stmts...)
	}
	if _, err := conn.ExecContext(ctx, "XA START '"+id+"'"); err != nil {
		r.res.InvalidPlan = "xa start: " + err.Error()
		return
	}
	wrote := 0
	for _, st := range stmts {
		if res, err := conn.ExecContext(ctx, st.SQL, goArgs(st.Args)...); err == nil {
			n, _ := res.RowsAffected()
			wrote += int(n)
		}
	}
	conn.ExecContext(ctx, "XA END '"+id+"'")
	if _, err := conn.ExecContext(ctx, "XA PREPARE '"+id+"'"); err != nil {
		r.res.InvalidPlan = "xa prepare: " + err.Error()
		return
	}
	conn.Raw(func(dc any) error {
		if k, ok := dc.(interface{ Kill() }); ok {
			k.Kill()
		}
		return nil
	})
	conn.Close()
	prepared := false
	for _, p := range w.Srv.PreparedXA() {
		if p == id {
			prepared = true
		}
	}
	if !prepared {
		r.res.Harness = "foreign branch is not prepared in the database model"
		return
	}
	j0 := w.Srv.JournalLen()
	b := &simtc.Branch{ID: plan.ForeignBranch, Xid: xid, Type: simtc.BranchXA, Resource: "root:pw@tcp(simdb1:3306)/" + atSchema}
	answered, status := false, byte(0)
	done := false
	w.TC.SendBranchEnd(b, plan.ForeignCommit, nil, 0, func(st byte, ans bool) { answered, status, done = ans, st, true })
	t0 := sim.Now()
	sim.Run(func() bool { return done || sim.Now()-t0 > 120*time.Second })
	t1 := sim.Now()
	sim.Run(func() bool { return sim.Now()-t1 > 2*time.Second && sim.Enabled() == 0 })
	cmds := xaCommands(w.Srv.JournalFrom(j0))
	var text []string
	resolvedOK := false
	for _, c := range cmds {
		s := c.cmd + " '" + c.id + "'"
		if c.err != "" {
			s += " -> " + c.err
		}
		text = append(text, s)
		want := "ROLLBACK"
		if plan.ForeignCommit {
			want = "COMMIT"
		}
		if c.id == id && c.cmd == want && c.err == "" {
			resolvedOK = true
		}
		if c.id != id {
			r.violate("C17", "identifier", "phase-two-other-identifier-"+cls, "phase two for (%s, %d) used XA identifier %q, the branch was prepared as %q", xid, plan.ForeignBranch, c.id, id)
		}
	}
	wantStatus := byte(simtc.BSPhaseTwoRollbacked)
	if plan.ForeignCommit {
		wantStatus = simtc.BSPhaseTwoCommitted
	}
	if !resolvedOK {
		r.violate("C17", "phase-two-same-identifier", "foreign-branch-not-resolved-"+cls, "a branch prepared by another process as %q got phase two (%s) on this process: commands %v, answered=%v status=%d; it is still prepared: %v", id, cls, text, answered, status, w.Srv.PreparedXA())
	} else if !answered || status != wantStatus {
		r.violate("C17", "phase-two-answer", "foreign-branch-answer-"+cls, "the prepared branch %q was resolved (%v) but the answer is answered=%v status=%d", id, text, answered, status)
	}
	final := appSnapshot(w.Srv.Snapshot())
	if resolvedOK && !plan.ForeignCommit {
		if d := simdb.Diff(s0, final); len(d) > 0 {
			r.violate("C17", "failure-means-rollback", "residue-"+cls, "after the rollback of the foreign branch the tables differ from their initial contents: %s", diffSummary(d))
		}
	}
	sim.State(fmt.Sprintf("!c17 %s wrote=%v", cls, wrote > 0))
	r.res.Episodes++
}

func init() { engines["C17"] = runC17 }

var _ = sort.Strings
