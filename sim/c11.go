package sim

import (
	"encoding/json"
	"fmt"
	"sort"
	"strings"
	"testing"
	"time"

	ssql "seata.apache.org/seata-go/pkg/datasource/sql"

	"verif/simdb"
	"verif/simkit"
	"verif/simnet"
	"verif/simtc"
)

// C11 — phase-two commit deletes exactly the committed branch's undo log, eventually.
//
// A grid of undo_log rows (xid x branch id x resource) is loaded; the
// coordinator model sends BranchCommit requests for a generated subset (in
// bursts, with duplicates, some for a resource that registers later) while
// transient database faults and connection outages are injected. Safety: no
// row outside the requested set is ever deleted. Liveness: a bounded
// simulated time after the last request/fault every requested row is gone and
// every request was answered Committed.

type C11Op struct {
	AtMs   int   `json:"at_ms"`
	Xid    int   `json:"xid"`
	Branch int64 `json:"branch"`
	Res    int   `json:"res"`
}

type C11Outage struct {
	AtMs   int `json:"at_ms"`
	Refuse int `json:"refuse"` // connection attempts refused after all idle connections were killed
}

type C11Plan struct {
	Cfg      ATCfg       `json:"cfg"`
	NRes     int         `json:"n_res"`
	NXid     int         `json:"n_xid"`
	NBranch  int         `json:"n_branch"`
	LateRes  int         `json:"late_res"` // resource registered at LateAtMs (-1: none)
	LateAtMs int         `json:"late_at_ms"`
	Ops      []C11Op     `json:"ops"`
	Faults   []DBFault   `json:"faults,omitempty"`
	Outages  []C11Outage `json:"outages,omitempty"`
	Tape     []int       `json:"tape"`
}

func genC11Plan(seed uint64, tier string) *C11Plan {
	g := simkit.NewGen(seed)
	p := &C11Plan{Cfg: genATCfg(g, true), NRes: g.Range(1, 3), NXid: g.Range(1, 4), NBranch: g.Range(1, 5), LateRes: -1}
	if g.Prob(0.3) {
		p.LateRes = g.Intn(p.NRes)
		p.LateAtMs = g.Range(100, 8000)
	}
	n := g.Range(1, 12)
	if tier == "thorough" {
		n = g.Range(1, 40)
	}
	burst := g.Prob(0.5)
	at := 0
	for i := 0; i < n; i++ {
		if !burst || g.Prob(0.2) {
			at += g.Range(0, 1500)
		}
		p.Ops = append(p.Ops, C11Op{AtMs: at, Xid: g.Intn(p.NXid), Branch: int64(1 + g.Intn(p.NBranch)), Res: g.Intn(p.NRes)})
		if g.Prob(0.15) {
			// duplicate delivery
			p.Ops = append(p.Ops, p.Ops[len(p.Ops)-1])
		}
	}
	if g.Prob(0.6) {
		nf := g.Range(1, 4)
		for i := 0; i < nf; i++ {
			p.Faults = append(p.Faults, DBFault{Class: "delete-undo", Nth: g.Range(1, n+2), Kind: simkit.Pick(g, []string{"error", "error", "badconn", "invalidconn"}), Num: 1205})
		}
	}
	if g.Prob(0.4) {
		no := g.Range(1, 2)
		for i := 0; i < no; i++ {
			p.Outages = append(p.Outages, C11Outage{AtMs: g.Range(0, at+2000), Refuse: g.Range(1, 4)})
		}
	}
	return p
}

func c11Schema(i int) string {
	if i == 0 {
		return atSchema
	}
	return fmt.Sprintf("%s%d", atSchema, i+1)
}

func c11Xid(i int) string { return fmt.Sprintf("10.0.0.7:8091:%d", 5001+i) }

func runC11(t *testing.T, seed uint64, planJSON []byte, tier string) (res *Result) {
	res = &Result{}
	var plan *C11Plan
	var tape *simkit.Tape
	if planJSON != nil {
		plan = &C11Plan{}
		if err := json.Unmarshal(planJSON, plan); err != nil {
			res.InvalidPlan = err.Error()
			return res
		}
		if plan.NRes < 1 || plan.NRes > 4 || plan.NXid < 1 || plan.NBranch < 1 || plan.NXid > 8 || plan.NBranch > 16 {
			res.InvalidPlan = "grid out of range"
			return res
		}
		for _, op := range plan.Ops {
			if op.Res < 0 || op.Res >= plan.NRes || op.Xid < 0 || op.Xid >= plan.NXid || op.Branch < 1 || op.Branch > int64(plan.NBranch) || op.AtMs < 0 {
				res.InvalidPlan = "op out of range"
				return res
			}
		}
		tape = simkit.ReplayTape(plan.Tape)
	} else {
		plan = genC11Plan(seed, tier)
		tape = simkit.NewTape(seed)
	}
	res.Harness = runBubbleP(t, plan, func(t *testing.T) {
		w := bootAT(seed, tape, plan.Cfg, simnet.Config{FragmentPct: 5})
		sim := w.Sim
		sim.Known = loadKnown("C11")
		sim.MaxStep = 3000000
		sim.MaxTime = 100000 * time.Hour
		// the grid
		for ri := 0; ri < plan.NRes; ri++ {
			w.CreateUndoLog(c11Schema(ri))
			var rows [][]interface{}
			id := int64(0)
			for xi := 0; xi < plan.NXid; xi++ {
				for b := int64(1); b <= int64(plan.NBranch); b++ {
					id++
					now := time.Date(2024, 1, 1, 0, 0, 0, 0, time.UTC)
					rows = append(rows, []interface{}{id, b, c11Xid(xi), "serializerKey=json", []byte("{}"), int64(0), now, now})
				}
			}
			if err := w.Srv.LoadRows(c11Schema(ri), "undo_log", rows); err != nil {
				res.Harness = "load grid: " + err.Error()
				return
			}
		}
		w.Net.Open(TCAddr)
		sim.Run(func() bool { return w.TC.SessionIsTM(0) && sim.Enabled() == 0 })
		openRes := func(ri int) error {
			db, err := w.OpenDS(c11Schema(ri))
			if err == nil {
				err = db.Ping()
			}
			return err
		}
		resID := func(ri int) string { return "root:pw@tcp(simdb1:3306)/" + c11Schema(ri) }
		for ri := 0; ri < plan.NRes; ri++ {
			if ri == plan.LateRes {
				continue
			}
			var err error
			ri := ri
			if !runOnActor(sim, "open-ds", 300*time.Second, func() { err = openRes(ri) }) || err != nil {
				res.Harness = fmt.Sprintf("cannot open data source %d: %v", ri, err)
				return
			}
		}
		// a requeue inside the async worker takes a little time (it is a busy
		// loop otherwise and simulated time could never pass)
		requeues := 0
		ssql.VerifOnRequeue = func() {
			requeues++
			time.Sleep(time.Millisecond)
		}
		defer func() { ssql.VerifOnRequeue = nil }()
		w.Hook.Reset(plan.Faults)
		j0 := w.Srv.JournalLen()
		t0 := sim.Now()
		// schedule
		type reqObs struct {
			op       C11Op
			answered bool
			status   byte
		}
		var reqs []*reqObs
		lastEvent := 0
		for i, op := range plan.Ops {
			ro := &reqObs{op: op}
			reqs = append(reqs, ro)
			if op.AtMs > lastEvent {
				lastEvent = op.AtMs
			}
			op := op
			sim.Post(fmt.Sprintf("c11-op|%04d", i), time.Duration(op.AtMs)*time.Millisecond, "", func() {
				b := &simtc.Branch{ID: op.Branch, Xid: c11Xid(op.Xid), Type: simtc.BranchAT, Resource: resID(op.Res)}
				w.TC.SendBranchEnd(b, true, nil, 0, func(status byte, answered bool) {
					ro.answered, ro.status = answered, status
				})
			})
		}
		if plan.LateRes >= 0 {
			if plan.LateAtMs > lastEvent {
				lastEvent = plan.LateAtMs
			}
			sim.Post("c11-late-resource", time.Duration(plan.LateAtMs)*time.Millisecond, "", func() {
				sim.Go("open-late-ds", func() {
					if err := openRes(plan.LateRes); err != nil {
						sim.Note("late data source: %v", err)
					}
				})
			})
		}
		for i, og := range plan.Outages {
			if og.AtMs > lastEvent {
				lastEvent = og.AtMs
			}
			og := og
			sim.Post(fmt.Sprintf("c11-outage|%02d", i), time.Duration(og.AtMs)*time.Millisecond, "", func() {
				n := w.Srv.KillIdle()
				w.Srv.ConnectFaults += og.Refuse
				sim.Fault("db-outage")
				sim.Logf("OUTAGE: %d idle connection(s) killed, next %d connection attempt(s) refused", n, og.Refuse)
			})
		}
		// targets
		target := map[string]bool{}
		key := func(ri int, xid string, b int64) string { return fmt.Sprintf("%s|%s|%d", c11Schema(ri), xid, b) }
		for _, op := range plan.Ops {
			target[key(op.Res, c11Xid(op.Xid), op.Branch)] = true
		}
		remaining := func() []string {
			var out []string
			snap := w.Srv.Snapshot()
			for ri := 0; ri < plan.NRes; ri++ {
				for _, r := range snap[strings.ToLower(c11Schema(ri)+".undo_log")] {
					b, _ := argInt(r[1])
					k := key(ri, fmt.Sprint(r[2]), b)
					if target[k] {
						out = append(out, k)
					}
				}
			}
			sort.Strings(out)
			return out
		}
		// run: until everything requested is gone, or the bound after the last event
		bound := time.Duration(lastEvent)*time.Millisecond + 600*time.Second
		allAnswered := func() bool {
			for _, ro := range reqs {
				if !ro.answered {
					return false
				}
			}
			return true
		}
		sim.Run(func() bool {
			el := sim.Now() - t0
			if el > bound {
				return true
			}
			return el > time.Duration(lastEvent)*time.Millisecond && allAnswered() && len(remaining()) == 0 && sim.Enabled() == 0
		})
		settledAt := sim.Now() - t0
		// ---- oracles ----
		cfgc := fmt.Sprintf("limit%d-chan%d-workers%d-buf%d", plan.Cfg.BufferLimit, plan.Cfg.RecvChan, plan.Cfg.Workers, plan.Cfg.WorkerBuf)
		cls := "plain"
		switch {
		case len(plan.Outages) > 0 && len(plan.Faults) > 0:
			cls = "outage+dberror"
		case len(plan.Outages) > 0:
			cls = "outage"
		case len(plan.Faults) > 0:
			cls = "dberror"
		}
		if plan.LateRes >= 0 {
			cls += "-late-resource"
		}
		_ = cfgc
		// precision: every deleted undo_log row was requested
		for _, e := range w.Srv.JournalFrom(j0) {
			ws := e.Writes
			for _, wr := range ws {
				if !strings.HasSuffix(wr.Table, ".undo_log") || wr.After != nil || wr.Before == nil {
					continue
				}
				schema := wr.Table[:strings.Index(wr.Table, ".")]
				b, _ := argInt(wr.Before[1])
				k := fmt.Sprintf("%s|%s|%d", schema, fmt.Sprint(wr.Before[2]), b)
				if !target[k] {
					sim.Violate("C11", "precision", "foreign-undo-log-deleted-"+cls, "the undo_log row (%s) was deleted by %q %v although no branch commit for it was ever requested", k, e.SQL, e.Args)
				}
			}
		}
		// answers
		for i, ro := range reqs {
			if !ro.answered {
				sim.Violate("C11", "answered-committed", "request-unanswered-"+cls, "branch commit request %d (%s branch %d resource %d) was not answered within %v of simulated time after the last request/fault", i, c11Xid(ro.op.Xid), ro.op.Branch, ro.op.Res, bound)
				break
			}
			if ro.status != simtc.BSPhaseTwoCommitted {
				sim.Violate("C11", "answered-committed", "answer-not-committed-"+cls, "branch commit request %d (%s branch %d) was answered with status %d", i, c11Xid(ro.op.Xid), ro.op.Branch, ro.status)
				break
			}
		}
		// completeness
		if left := remaining(); len(left) > 0 {
			sim.Violate("C11", "eventually-deleted", "undo-log-never-deleted-"+cls, "%d requested undo_log row(s) still exist %v of simulated time after the last request/fault (all faults were transient): %v", len(left), bound, left)
		}
		sim.State(fmt.Sprintf("!c11 %s ops=%d res=%d %s", cls, len(plan.Ops)/4, plan.NRes, cfgc))
		sim.Note("settled after %v, %d requeue(s)", settledAt, requeues)
		if requeues > 0 {
			sim.Probe("c11-requeued")
		}
		if requeues > 1000 {
			sim.Probe("c11-requeue-busy-loop-over-1000")
		}
		res.Episodes = len(plan.Ops)
		plan.Tape = tape.Rec
		if len(res.Samples) < 1 {
			res.Samples = append(res.Samples, map[string]any{"plan": plan})
		}
		finishResult(res, sim)
	})
	res.Plan, _ = json.Marshal(plan)
	res.Components = atComponents
	return res
}

func init() { engines["C11"] = runC11 }

var _ = simdb.Equal
