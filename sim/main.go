package sim

import (
	"encoding/json"
	"flag"
	"fmt"
	"os"
	"testing"
	"time"
	"verif/simkit"
)

var (
	flagProp = flag.String("prop", "", "property id (C01..C20)")
	flagSeed = flag.Uint64("seed", 1, "run seed")
	flagPlan = flag.String("plan", "", "plan file to execute instead of generating from seed")
	flagOut  = flag.String("out", "", "result file")
	flagTier = flag.String("tier", "quick", "quick|thorough")
	flagWall = flag.Duration("wall", 120*time.Second, "real-time watchdog")
	flagMode = flag.String("mode", "", "engine specific sub-mode")
)

type engine func(t *testing.T, seed uint64, planJSON []byte, tier string) *Result

var engines = map[string]engine{}

// RunSim is the child-process entry point used by simdrive (called from TestSim).
func RunSim(t *testing.T) {
	if *flagProp == "" {
		t.Skip("no -prop given")
	}
	e := engines[*flagProp]
	if e == nil {
		fmt.Fprintf(os.Stderr, "unknown property %q\n", *flagProp)
		os.Exit(2)
	}
	startWatchdog(*flagWall, *flagOut)
	simkit.ProgressHook = c20Tick
	if *flagProp != "C20" {
		// (C20 starts its own, with its plan)
		startStallObserver(*flagProp, *flagSeed, stallPlanJSON, *flagOut, 12*time.Second, make(chan struct{}))
	}
	var plan []byte
	if *flagPlan != "" {
		b, err := os.ReadFile(*flagPlan)
		if err != nil {
			fmt.Fprintln(os.Stderr, err)
			os.Exit(2)
		}
		// a replay file wraps the plan
		var wrap struct {
			Plan json.RawMessage `json:"plan"`
		}
		if json.Unmarshal(b, &wrap) == nil && len(wrap.Plan) > 0 {
			b = wrap.Plan
		}
		plan = b
	}
	res := e(t, *flagSeed, plan, *flagTier)
	res.Property = *flagProp
	res.Seed = *flagSeed
	b, _ := json.Marshal(res)
	if *flagOut != "" {
		if err := os.WriteFile(*flagOut, b, 0o644); err != nil {
			fmt.Fprintln(os.Stderr, err)
			os.Exit(2)
		}
	} else {
		os.Stdout.Write(b)
		os.Stdout.Write([]byte("\n"))
	}
	switch {
	case res.Harness != "":
		fmt.Fprintln(os.Stderr, "harness error:", res.Harness)
		os.Exit(2)
	case res.InvalidPlan != "":
		os.Exit(3)
	case len(res.Violations) > 0:
		os.Exit(1)
	}
}
