package sim

import (
	"database/sql"
	"fmt"
	"strings"

	"seata.apache.org/seata-go/pkg/compressor"
	"seata.apache.org/seata-go/pkg/datasource/sql/datasource"
	"seata.apache.org/seata-go/pkg/datasource/sql/types"
	"seata.apache.org/seata-go/pkg/datasource/sql/undo"
	"seata.apache.org/seata-go/pkg/datasource/sql/undo/parser"
	"seata.apache.org/seata-go/pkg/util/collection"
)

// decodeStoredUndo decodes a stored (context, rollback_info) pair with the
// client's exported parser / compressor API exactly as the rollback path does
// (context -> compress type -> decompress -> serializer -> decode).
func decodeStoredUndo(context, info []byte) (log *undo.BranchUndoLog, err error) {
	defer func() {
		if p := recover(); p != nil {
			err = fmt.Errorf("decoding panicked: %v", p)
			log = nil
		}
	}()
	ctx := collection.DecodeMap(context)
	if ctx == nil {
		return nil, fmt.Errorf("undo log context not decodable: %q", context)
	}
	data := info
	if v, ok := ctx["compressorTypeKey"]; ok {
		data, err = compressor.CompressorType(v).GetCompressor().Decompress(info)
		if err != nil {
			return nil, fmt.Errorf("decompress (%s): %v", v, err)
		}
	}
	ser := ctx["serializerKey"]
	p, err := parser.GetCache().Load(ser)
	if err != nil {
		return nil, fmt.Errorf("serializer %q named in the context: %v", ser, err)
	}
	return p.Decode(data)
}

func toBytes(v interface{}) []byte {
	switch x := v.(type) {
	case []byte:
		return x
	case string:
		return []byte(x)
	}
	return nil
}

// checkEncoding: C08 — what phase one wrote is what rollback reads.
func (r *atRun) checkEncoding(o *episodeObs, t *localTxn, fl *undo.BranchUndoLog) {
	if t.undoIns == nil || len(t.undoIns.Args) < 4 {
		return
	}
	cfg := r.plan.Cfg
	cls := func(s string) string { return s + r.cfgClass() }
	dec, err := decodeStoredUndo(toBytes(t.undoIns.Args[2]), toBytes(t.undoIns.Args[3]))
	if err != nil {
		k := "decode-error"
		if strings.Contains(err.Error(), "panicked") {
			k = "decode-panic"
		} else if strings.Contains(err.Error(), "decompress") {
			k = "decompress-error"
		}
		r.violate("C08", "decodable", cls(k), "episode %d branch %d (serializer %s, compress %s): the stored undo log cannot be decoded: %v", o.idx, fl.BranchID, cfg.Serializer, cfg.Compress, err)
		return
	}
	if ctx := collection.DecodeMap(toBytes(t.undoIns.Args[2])); ctx != nil {
		if cfgc := strings.ToLower(cfg.Compress); cfgc != "" && cfgc != "none" && strings.EqualFold(ctx["compressorTypeKey"], "None") {
			r.w.Sim.Probe("c08-stored-uncompressed-after-compressor-refused-" + cfgc)
		}
	}
	if dec.Xid != fl.Xid || dec.BranchID != fl.BranchID || len(dec.Logs) != len(fl.Logs) {
		r.violate("C08", "lossless", cls("header-mismatch"), "episode %d: decoded undo log has xid/branch/items %q/%d/%d, written %q/%d/%d", o.idx, dec.Xid, dec.BranchID, len(dec.Logs), fl.Xid, fl.BranchID, len(fl.Logs))
		return
	}
	for i := range fl.Logs {
		a, b := fl.Logs[i], dec.Logs[i]
		if !strings.EqualFold(a.TableName, b.TableName) || a.SQLType != b.SQLType {
			r.violate("C08", "lossless", cls("item-mismatch"), "episode %d item %d: table/sqlType %q/%v decoded as %q/%v", o.idx, i, a.TableName, a.SQLType, b.TableName, b.SQLType)
			continue
		}
		r.compareDecoded(o, i, "before", a.BeforeImage, b.BeforeImage)
		r.compareDecoded(o, i, "after", a.AfterImage, b.AfterImage)
	}
}

func (r *atRun) compareDecoded(o *episodeObs, item int, which string, a, b *types.RecordImage) {
	cls := func(s string) string { return s + r.cfgClass() }
	na, nb := imageRows(a), imageRows(b)
	if na != nb {
		r.violate("C08", "lossless", cls("row-count"), "episode %d item %d %s image: %d row(s) written, %d decoded", o.idx, item, which, na, nb)
		return
	}
	for ri := 0; ri < na; ri++ {
		ca, cb := a.Rows[ri].Columns, b.Rows[ri].Columns
		if len(ca) != len(cb) {
			r.violate("C08", "lossless", cls("column-count"), "episode %d item %d %s image row %d: %d column(s) written, %d decoded", o.idx, item, which, ri, len(ca), len(cb))
			continue
		}
		for ci := range ca {
			x, y := ca[ci], cb[ci]
			if x.ColumnName != y.ColumnName || x.KeyType != y.KeyType || x.ColumnType != y.ColumnType {
				r.violate("C08", "lossless", cls("column-meta"), "episode %d item %d %s image: column %q (key %v, type %v) decoded as %q (key %v, type %v)", o.idx, item, which, x.ColumnName, x.KeyType, x.ColumnType, y.ColumnName, y.KeyType, y.ColumnType)
				continue
			}
			// the equality the undo executors use
			if !datasource.DeepEqual(nilSlice(x.Value), nilSlice(y.Value)) && !sameBytes(x.Value, y.Value) {
				r.violate("C08", "lossless", cls(fmt.Sprintf("value-jdbc%d-%T", x.ColumnType, x.Value)), "episode %d item %d %s image column %s (JDBC type %d): written %T(%v), decoded %T(%v)", o.idx, item, which, x.ColumnName, x.ColumnType, x.Value, x.Value, y.Value, y.Value)
			}
		}
	}
}

func sameBytes(a, b interface{}) bool {
	ba, bb := toBytes(a), toBytes(b)
	if rb, ok := a.([]uint8); ok {
		ba = rb
	}
	return ba != nil && bb != nil && string(ba) == string(bb)
}

// nilSlice maps a nil byte slice (SQL NULL in a row image) to untyped nil.
func nilSlice(v interface{}) interface{} {
	switch x := v.(type) {
	case []byte:
		if x == nil {
			return nil
		}
	case sql.RawBytes:
		if x == nil {
			return nil
		}
	}
	return v
}
