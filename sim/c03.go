package sim

import (
	"context"
	"database/sql"
	"encoding/json"
	"fmt"
	"strings"
	"testing"
	"time"

	"seata.apache.org/seata-go/pkg/tm"

	"verif/simdb"
	"verif/simkit"
	"verif/simtc"
)

// C03 — global lock keys cover every written row; locking reads consult the
// coordinator. Modes: "mixed" (oracles 1 and 2 as invariants of generated
// commit/rollback runs), "sfu" (oracle 3: SELECT ... FOR UPDATE), "two"
// (oracle 4: two global transactions overlapping on rows, every interleaving
// of statements, registrations and replies chosen by the tape).

type C03Plan struct {
	ATPlan
	// sfu mode
	Selects []C03Select `json:"selects,omitempty"`
	// two mode: per actor one episode
	Actors []ATEpisode `json:"actors,omitempty"`
}

type C03Select struct {
	SQL      string `json:"sql"`
	Args     []Val  `json:"args,omitempty"`
	Explicit bool   `json:"explicit"`
	Conflict bool   `json:"conflict"` // coordinator answers "not lockable"
	Table    int    `json:"table"`
	// Prepared: the statement is prepared at start-up, outside any global
	// transaction, and executed inside one (what an application with a
	// statement cache does)
	Prepared bool `json:"prepared,omitempty"`
}

func runC03(t *testing.T, seed uint64, planJSON []byte, tier string) (res *Result) {
	mode := *flagMode
	if planJSON != nil {
		var probe struct {
			Mode string `json:"mode"`
		}
		json.Unmarshal(planJSON, &probe)
		mode = probe.Mode
	}
	if mode == "" {
		mode = []string{"mixed", "sfu", "two"}[seed%3]
	}
	switch mode {
	case "sfu":
		return runC03SFU(t, seed, planJSON, tier)
	case "two":
		return runC03Two(t, seed, planJSON, tier)
	}
	// lock keys are about keys and row sets: favour composite / textual keys and
	// statements touching several rows
	atPlanTweak = func(g *simkit.Gen, o *GenOpts) {
		if g.Prob(0.7) {
			o.PKKinds = pickSome(g, []string{"comp", "str", "comp", "auto", "int", "date"}, 1)
		}
		if g.Prob(0.6) {
			o.MultiRow = true
		}
		if g.Prob(0.5) {
			o.WhereForms = pickSome(g, []string{"in", "between", "or", "pk", "paren"}, 2)
		}
		if g.Prob(0.2) {
			// rows reached through a secondary unique index: upserts on tables with a
			// generated key the statement need not name
			o.PKKinds, o.UniqueIndex, o.Upsert = []string{"auto"}, true, true
		}
	}
	defer func() { atPlanTweak = nil }()
	return runATGeneric(t, "C03", "mixed", seed, planJSON, tier)
}

func c03Opts(g *simkit.Gen) GenOpts {
	o := defaultGenOpts()
	o.Types = pickSome(g, []string{"int", "varchar", "bigint", "decimal", "datetime"}, 2)
	o.PKKinds = pickSome(g, []string{"int", "str", "comp", "auto", "date", "ubig", "dec"}, 1)
	o.WhereForms = pickSome(g, []string{"pk", "in", "between", "or", "paren", "and"}, 1)
	o.Params = g.Prob(0.8)
	return o
}

// ---- mode sfu ---------------------------------------------------------------------------

func runC03SFU(t *testing.T, seed uint64, planJSON []byte, tier string) (res *Result) {
	res = &Result{}
	var plan *C03Plan
	var tape *simkit.Tape
	if planJSON != nil {
		plan = &C03Plan{}
		if err := json.Unmarshal(planJSON, plan); err != nil || len(plan.Tables) == 0 {
			res.InvalidPlan = fmt.Sprint("bad plan ", err)
			return res
		}
		tape = simkit.ReplayTape(plan.Tape)
	} else {
		g := simkit.NewGen(seed)
		plan = &C03Plan{}
		plan.Mode = "sfu"
		plan.Cfg = genATCfg(g, false)
		plan.Opts = c03Opts(g)
		plan.Tables = []TableDef{genTable(g, "t_a", plan.Opts)}
		for len(plan.Tables[0].Rows) < 2 {
			plan.Tables[0] = genTable(g, "t_a", plan.Opts)
		}
		n := 6
		if tier == "thorough" {
			n = 20
		}
		sg := newStmtGen(g, plan.Opts, plan.Tables)
		for i := 0; i < n; i++ {
			var args []Val
			w := sg.where(0, &args)
			if g.Prob(0.2) {
				// a locking read that matches no row
				args = nil
				if pk := sg.freshPK(0); pk != nil {
					w = sg.wherePK(0, pk, &args)
				}
			}
			tail := ""
			t0 := &plan.Tables[0]
			if len(t0.PK) == 1 && len(t0.Rows) >= 2 && g.Prob(0.3) {
				// a locking read that picks its rows by order and limit: the rows the
				// coordinator is asked about must be the rows that come back
				var items []string
				args = nil
				for _, r := range t0.Rows {
					for j, c := range t0.Cols {
						if c.Name == t0.PK[0] {
							items = append(items, sg.place(r[j], &args))
						}
					}
				}
				w = fmt.Sprintf("%s IN (%s)", t0.PK[0], strings.Join(items, ", "))
				oc := t0.Cols[g.Intn(len(t0.Cols))].Name
				tail = fmt.Sprintf(" ORDER BY %s %s LIMIT %d", oc, simkit.Pick(g, []string{"DESC", "DESC", "ASC"}), g.Range(1, len(t0.Rows)-1))
			}
			plan.Selects = append(plan.Selects, C03Select{SQL: fmt.Sprintf("SELECT * FROM %s WHERE %s%s FOR UPDATE", plan.Tables[0].Name, w, tail), Args: args, Explicit: g.Bool(), Conflict: g.Prob(0.35), Prepared: g.Prob(0.25)})
		}
		tape = simkit.NewTape(seed)
	}
	res.Harness = runBubbleP(t, plan, func(t *testing.T) {
		r := setupAT(seed, tape, &plan.ATPlan, "C03", res)
		if r == nil {
			return
		}
		sim, tc, w := r.w.Sim, r.w.TC, r.w
		tab := w.Srv.Table(atSchema, plan.Tables[0].Name)
		for i, sel := range plan.Selects {
			if err := r.resetData(); err != nil {
				res.InvalidPlan = err.Error()
				return
			}
			tc.Rules = nil
			if sel.Conflict {
				tc.Rules = []simtc.Rule{{Code: simtc.TGlobalLockQuery, Nth: 0, Action: simtc.ActConflict}}
			}
			logStart := len(tc.Log)
			var rowsPK []string
			var qerr error
			var panicked interface{}
			returnSeq := uint64(0)
			locksAfter := -1
			done := false
			var prepared *sql.Stmt
			sim.Go("sfu", func() {
				defer func() { done = true }()
				if sel.Prepared {
					if st, err := r.db.PrepareContext(context.Background(), sel.SQL); err == nil {
						prepared = st
						defer st.Close()
						sim.Probe("c03-locking-read-prepared-outside-the-global-transaction")
					}
				}
				tm.WithGlobalTx(context.Background(), &tm.GtxConfig{Name: fmt.Sprintf("sfu-%d", i), Timeout: 60 * time.Second}, func(ctx context.Context) error {
					run := func(q interface {
						QueryContext(ctx context.Context, query string, args ...any) (*sql.Rows, error)
					}) {
						defer func() {
							if p := recover(); p != nil {
								panicked = p
								qerr = fmt.Errorf("panic: %v", p)
							}
						}()
						var rows *sql.Rows
						var err error
						if prepared != nil {
							st := prepared
							if tx, ok := q.(*sql.Tx); ok {
								st = tx.StmtContext(ctx, prepared)
							}
							rows, err = st.QueryContext(ctx, goArgs(sel.Args)...)
						} else {
							rows, err = q.QueryContext(ctx, sel.SQL, goArgs(sel.Args)...)
						}
						if err != nil {
							qerr = err
							return
						}
						defer rows.Close()
						cols, _ := rows.Columns()
						for rows.Next() {
							vals := make([]interface{}, len(cols))
							ptrs := make([]interface{}, len(cols))
							for k := range vals {
								ptrs[k] = &vals[k]
							}
							if err := rows.Scan(ptrs...); err != nil {
								qerr = err
								return
							}
							var parts []string
							for _, pi := range tab.PKIdx() {
								switch x := vals[pi].(type) {
								case []byte:
									parts = append(parts, string(x))
								default:
									parts = append(parts, fmt.Sprint(x))
								}
							}
							rowsPK = append(rowsPK, strings.Join(parts, "_"))
						}
						qerr = rows.Err()
					}
					if sel.Explicit {
						tx, err := r.db.BeginTx(ctx, nil)
						if err != nil {
							qerr = err
							return err
						}
						run(tx)
						returnSeq = sim.Logf("APP select-for-update returned %d row(s) err=%v", len(rowsPK), qerr)
						// which row locks does the statement's connection still hold?
						locksAfter = 0
						for _, cs := range w.Srv.ConnStates() {
							if cs.InTxn {
								locksAfter += cs.Locks
							}
						}
						tx.Rollback()
					} else {
						run(r.db)
						returnSeq = sim.Logf("APP select-for-update (autocommit) returned %d row(s) err=%v", len(rowsPK), qerr)
						locksAfter = 0
						for _, cs := range w.Srv.ConnStates() {
							locksAfter += cs.Locks
						}
					}
					return nil
				})
			})
			t0 := sim.Now()
			sim.Run(func() bool { return done || sim.Now()-t0 > 900*time.Second })
			res.Episodes++
			vv := func(clause, class, f string, a ...any) {
				sim.Violate("C03", clause, class, "select %d %q args %v (explicit=%v, coordinator says conflict=%v): %s", i, sel.SQL, sel.Args, sel.Explicit, sel.Conflict, fmt.Sprintf(f, a...))
			}
			if !done {
				vv("termination", "sfu-stuck", "the statement never returned")
				break
			}
			if panicked != nil {
				cls := "sfu-panic"
				if strings.Contains(fmt.Sprint(panicked), "nil pointer") {
					cls = "sfu-panic-nil"
				}
				vv("no-crash", cls, "the locking read panicked through database/sql: %v", panicked)
			}
			// lock queries seen by the coordinator before the statement returned
			granted := map[string]bool{}
			refused := false
			reqs := map[int32]*simtc.Msg{}
			for _, rec := range tc.Log[logStart:] {
				if rec.F.Body == nil || rec.Seq > returnSeq {
					continue
				}
				switch rec.F.Body.Code {
				case simtc.TGlobalLockQuery:
					reqs[rec.F.ID] = rec.F.Body
				case simtc.TGlobalLockQueryRes:
					if rq := reqs[rec.F.ID]; rq != nil {
						if rec.F.Body.Lockable {
							for k := range parseLockKeyText(rq.LockKey) {
								granted[k] = true
							}
						} else {
							refused = true
						}
					}
				}
			}
			if len(rowsPK) > 0 && qerr == nil {
				for _, pk := range rowsPK {
					if !granted[strings.ToLower(tab.Name)+":"+pk] {
						vv("rows-only-after-lockable", "rows-without-lock-confirmation", "row %s reached the caller but the coordinator never confirmed it lockable before the return (confirmed keys: %v)", pk, keysOf(granted))
						break
					}
				}
			}
			if refused && sel.Conflict {
				if qerr == nil {
					vv("conflict-fails", "no-error-on-lock-conflict", "the coordinator answered not lockable but the caller got %d row(s) and no error", len(rowsPK))
				}
				if locksAfter > 0 {
					vv("conflict-releases-local-locks", "local-locks-kept-after-conflict", "after the refused locking read the connection still holds %d row lock(s)", locksAfter)
				}
			}
			sim.State(fmt.Sprintf("!sfu explicit=%v conflict=%v rows=%v err=%v", sel.Explicit, sel.Conflict, len(rowsPK) > 0, qerr != nil))
			if len(res.Samples) < 2 {
				res.Samples = append(res.Samples, sel)
			}
			if len(sim.Violations()) > 0 {
				break
			}
		}
		// "the same row always yields the same key text whatever statement form
		// touched it": a DML statement on the rows the locking reads asked about
		if len(sim.Violations()) == 0 && len(plan.Tables[0].Rows) > 0 {
			asked := map[string]string{}
			for _, rec := range tc.Log {
				if rec.F.Body != nil && rec.F.Body.Code == simtc.TGlobalLockQuery {
					for k, raw := range rawLockKeys(rec.F.Body.LockKey) {
						asked[k] = raw
					}
				}
			}
			if err := r.resetData(); err == nil && len(asked) > 0 {
				tc.Rules = nil
				t0 := &plan.Tables[0]
				var setCol string
				for _, c := range t0.Cols {
					if !t0.isPK(c.Name) {
						setCol = c.Name
						break
					}
				}
				logStart := len(tc.Log)
				done := false
				sim.Go("sfu-dml", func() {
					defer func() { recover(); done = true }()
					tm.WithGlobalTx(context.Background(), &tm.GtxConfig{Name: "sfu-dml", Timeout: 60 * time.Second}, func(ctx context.Context) error {
						for _, row := range t0.Rows {
							var conds []string
							for j, c := range t0.Cols {
								if t0.isPK(c.Name) {
									conds = append(conds, c.Name+" = "+row[j].Lit())
								}
							}
							r.db.ExecContext(ctx, fmt.Sprintf("UPDATE %s SET %s = %s WHERE %s", t0.Name, setCol, setCol, strings.Join(conds, " AND ")))
						}
						return errBusiness
					})
				})
				t1 := sim.Now()
				sim.Run(func() bool { return done || sim.Now()-t1 > 900*time.Second })
				t2 := sim.Now()
				sim.Run(func() bool { return sim.Now()-t2 > 5*time.Second && sim.Enabled() == 0 && tc.PendingP2() == 0 })
				compared := 0
				for _, rec := range tc.Log[logStart:] {
					if rec.F.Body == nil || rec.F.Body.Code != simtc.TBranchRegister {
						continue
					}
					for k, raw := range rawLockKeys(rec.F.Body.LockKey) {
						if q, ok := asked[k]; ok {
							compared++
							if q != raw {
								sim.Violate("C03", "lock-key-stable", "lock-key-text-differs-dml-vs-locking-read", "row %s: an UPDATE registered the lock key %q, a SELECT ... FOR UPDATE had asked the coordinator about %q", k, raw, q)
							}
						}
					}
				}
				if compared > 0 {
					sim.Probe("c03-key-text-of-dml-and-locking-read-compared")
				}
			}
		}
		plan.Tape = tape.Rec
		finishResult(res, sim)
	})
	res.Plan, _ = json.Marshal(plan)
	res.Components = atComponents
	return res
}

// ---- mode two ---------------------------------------------------------------------------------

func runC03Two(t *testing.T, seed uint64, planJSON []byte, tier string) (res *Result) {
	res = &Result{}
	var plan *C03Plan
	var tape *simkit.Tape
	if planJSON != nil {
		plan = &C03Plan{}
		if err := json.Unmarshal(planJSON, plan); err != nil || len(plan.Tables) == 0 {
			res.InvalidPlan = fmt.Sprint("bad plan ", err)
			return res
		}
		tape = simkit.ReplayTape(plan.Tape)
	} else {
		g := simkit.NewGen(seed)
		plan = &C03Plan{}
		plan.Mode = "two"
		plan.Cfg = genATCfg(g, false)
		plan.Opts = defaultGenOpts()
		plan.Opts.WhereForms = []string{"pk", "in"}
		plan.Tables = []TableDef{genTable(g, "t_a", plan.Opts)}
		for len(plan.Tables[0].Rows) < 2 || len(plan.Tables[0].Rows) > 3 {
			plan.Tables[0] = genTable(g, "t_a", plan.Opts)
		}
		na := 2
		if g.Prob(0.25) {
			na = 3
		}
		for a := 0; a < na; a++ {
			sg := newStmtGen(g, plan.Opts, plan.Tables)
			ep := ATEpisode{Outcome: simkit.Pick(g, []string{"commit", "commit", "rollback"}), StopOnErr: true}
			nb := g.Range(1, 2)
			for b := 0; b < nb; b++ {
				br := ATBranch{Explicit: g.Bool()}
				ns := 1
				if br.Explicit {
					ns = g.Range(1, 2)
				}
				for s := 0; s < ns; s++ {
					st := sg.gen()
					for st.Kind != "update" && st.Kind != "delete" {
						st = sg.gen()
					}
					br.Stmts = append(br.Stmts, st)
				}
				ep.Branches = append(ep.Branches, br)
			}
			plan.Actors = append(plan.Actors, ep)
		}
		tape = simkit.NewTape(seed)
	}
	res.Harness = runBubbleP(t, plan, func(t *testing.T) {
		r := setupAT(seed, tape, &plan.ATPlan, "C03", res)
		if r == nil {
			return
		}
		sim, tc, w := r.w.Sim, r.w.TC, r.w
		rounds := 3
		if tier == "thorough" {
			rounds = 8
		}
		for round := 0; round < rounds && len(sim.Violations()) == 0; round++ {
			if err := r.resetData(); err != nil {
				res.InvalidPlan = err.Error()
				return
			}
			jstart := w.Srv.JournalLen()
			w.Hook.Reset(nil)
			tc.Rules = nil
			type actorState struct {
				xid  string
				done bool
			}
			acts := make([]*actorState, len(plan.Actors))
			for ai := range plan.Actors {
				ai := ai
				ep := &plan.Actors[ai]
				as := &actorState{}
				acts[ai] = as
				sim.Go(fmt.Sprintf("actor-%d", ai), func() {
					defer func() { recover(); as.done = true }()
					sim.Park(fmt.Sprintf("c03-start|%d", ai), "")
					tm.WithGlobalTx(context.Background(), &tm.GtxConfig{Name: fmt.Sprintf("two-%d-%d", round, ai), Timeout: 60 * time.Second}, func(ctx context.Context) error {
						as.xid = tm.GetXID(ctx)
						var out []stmtRes
						if err := r.runBusiness(ctx, ep, &out); err != nil {
							return err
						}
						if ep.Outcome == "rollback" {
							return errBusiness
						}
						return nil
					})
				})
			}
			t0 := sim.Now()
			sim.Run(func() bool {
				for _, a := range acts {
					if !a.done {
						return sim.Now()-t0 > 2000*time.Second
					}
				}
				return true
			})
			t1 := sim.Now()
			sim.Run(func() bool {
				return sim.Enabled() == 0 && tc.PendingP2() == 0 && sim.Now()-t1 > 3*time.Second || sim.Now()-t1 > 600*time.Second
			})
			res.Episodes++
			for _, a := range acts {
				if !a.done {
					sim.Violate("C03", "termination", "two-stuck", "round %d: an actor's global transaction never finished", round)
				}
			}
			// oracle 4: committed local writes per row in commit order, with the xid taken from the undo_log insert
			type cw struct {
				xid string
				seq uint64
			}
			writes := map[string][]cw{}
			for _, t := range splitLocalTxns(w.Srv.JournalFrom(jstart)) {
				if !t.committed || t.undoIns == nil {
					continue
				}
				phaseTwo := false
				for _, e := range t.entries {
					if e.Class == "select-for-update-undo" || e.Class == "delete-undo" {
						phaseTwo = true
					}
				}
				if phaseTwo {
					continue
				}
				xid := fmt.Sprint(t.undoIns.Args[1])
				if b, ok := t.undoIns.Args[1].([]byte); ok {
					xid = string(b)
				}
				for _, wr := range appWrites(t.writes) {
					writes[wr.Table+"|"+wr.Key] = append(writes[wr.Table+"|"+wr.Key], cw{xid, t.commitSeq})
				}
			}
			for row, ws := range writes {
				for i := 0; i < len(ws); i++ {
					for k := i + 1; k < len(ws); k++ {
						a, b := ws[i], ws[k]
						if a.xid == b.xid {
							continue
						}
						first, second := a, b
						if b.seq < a.seq {
							first, second = b, a
						}
						g := tc.Globals[first.xid]
						if g == nil {
							continue
						}
						// the earlier writer was still globally open when the later one committed locally
						if g.EndSeq == 0 || g.EndSeq > second.seq {
							sim.Violate("C03", "write-isolation", "dirty-global-write", "round %d row %s: global transaction %s committed a local write at seq %d while %s, which had written the row at seq %d, was still open (ended at seq %d)", round, row, second.xid, second.seq, first.xid, first.seq, g.EndSeq)
						}
					}
				}
			}
			sim.State(fmt.Sprintf("!two actors=%d conflicts=%d", len(plan.Actors), sim.Probes["tc-lock-conflict"]))
			if len(res.Samples) < 1 {
				res.Samples = append(res.Samples, map[string]any{"mode": "two", "actors": plan.Actors})
			}
		}
		plan.Tape = tape.Rec
		finishResult(res, sim)
	})
	res.Plan, _ = json.Marshal(plan)
	res.Components = atComponents
	return res
}

func init() { engines["C03"] = runC03 }

var _ = simdb.Diff
