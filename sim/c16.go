package sim

import (
	"context"
	"database/sql"
	"encoding/json"
	"fmt"
	"runtime/debug"
	"strconv"
	"strings"
	"testing"
	"time"

	"seata.apache.org/seata-go/pkg/tm"

	"verif/simdb"
	"verif/simkit"
	"verif/simnet"
)

// C16 — the proxy driver is transparent apart from its transactional duties.
//
// Differential execution: one generated statement program runs through the
// proxy (AT or XA driver, inside or outside a global transaction) against
// database model A and through the bare driver against database model B with
// identical initial contents. Results of every operation, the final data and
// (outside a global transaction) the statement streams the two servers saw
// are compared.

type C16Op struct {
	Op   string `json:"op"` // exec | query | pexec | pquery | begin | commit | rollback
	SQL  string `json:"sql,omitempty"`
	Args []Val  `json:"args,omitempty"`
	Kind string `json:"kind,omitempty"`
}

type C16Plan struct {
	Driver string     `json:"driver"` // at | xa
	Global bool       `json:"global"` // program runs inside a global transaction (committed at the end)
	Cfg    ATCfg      `json:"cfg"`
	Opts   GenOpts    `json:"opts"`
	Tables []TableDef `json:"tables"`
	Ops    []C16Op    `json:"ops"`
	// Prelude (AT driver, program outside a global transaction): operations
	// run first INSIDE a global transaction (committed) over the same handle -
	// an explicit transaction, a statement that is only prepared ("pkeep") and
	// executed later by the program ("preuse"). Dedicated: the handle is one
	// *sql.Conn for prelude and program instead of the pool.
	// Fault (program outside a global transaction, no prelude): the same database
	// error at the same statement on both servers - what the application sees of
	// it must be the same through the proxy
	Fault     *DBFault `json:"fault,omitempty"`
	Prelude   []C16Op  `json:"prelude,omitempty"`
	Dedicated bool     `json:"dedicated,omitempty"`
	Tape      []int    `json:"tape"`
	Version   string   `json:"version,omitempty"`
}

type c16Res struct {
	Err      string
	Affected int64
	LastID   int64
	Cols     []string
	Rows     []string
	stack    string
}

func (r c16Res) String() string {
	if r.Err != "" {
		return "error: " + r.Err
	}
	if r.Cols != nil {
		return fmt.Sprintf("cols=%v rows=%v", r.Cols, r.Rows)
	}
	return fmt.Sprintf("affected=%d lastID=%d", r.Affected, r.LastID)
}

func genC16Plan(seed uint64, tier string) *C16Plan {
	g := simkit.NewGen(seed)
	p := &C16Plan{Driver: "at", Cfg: genATCfg(g, g.Prob(0.3)), Opts: defaultGenOpts()}
	if g.Prob(0.25) {
		p.Driver = "xa"
	}
	p.Global = p.Driver == "at" && g.Prob(0.4)
	if g.Prob(0.6) {
		p.Opts.Types = pickSome(g, allTypes, 2)
	}
	if g.Prob(0.5) {
		p.Opts.PKKinds = pickSome(g, []string{"int", "auto", "str", "comp"}, 1)
	}
	p.Opts.Trouble = g.Prob(0.3)
	p.Opts.MultiRow = g.Prob(0.4)
	p.Opts.Upsert = g.Prob(0.3)
	p.Opts.ShuffleCols = g.Prob(0.3)
	p.Opts.OrderLimit = g.Prob(0.2)
	if g.Prob(0.5) {
		p.Opts.WhereForms = pickSome(g, []string{"pk", "in", "between", "and", "or", "paren", "nonpk"}, 1)
	}
	p.Opts.Params = g.Prob(0.8)
	nt := g.Range(1, 2)
	for i := 0; i < nt; i++ {
		p.Tables = append(p.Tables, genTable(g, fmt.Sprintf("t_%c", 'a'+i), p.Opts))
	}
	sg := newStmtGen(g, p.Opts, p.Tables)
	n := g.Range(2, 8)
	if tier == "thorough" {
		n = g.Range(2, 16)
	}
	inTx := false
	ddlMade := false
	for i := 0; i < n; i++ {
		x := g.Intn(100)
		switch {
		case x < 8 && !inTx:
			// transaction options must reach the database as they do without the proxy
			p.Ops = append(p.Ops, C16Op{Op: "begin", Kind: simkit.Pick(g, []string{"", "", "ro", "iso-rc", "iso-rr", "iso-ser", "iso-rc-ro"})})
			inTx = true
		case x < 16 && inTx:
			p.Ops = append(p.Ops, C16Op{Op: simkit.Pick(g, []string{"commit", "commit", "rollback"})})
			inTx = false
		case x < 40:
			// query
			ti := g.Intn(len(p.Tables))
			t := &p.Tables[ti]
			var args []Val
			q := ""
			switch g.Intn(6) {
			case 0:
				q = fmt.Sprintf("SELECT * FROM %s ORDER BY %s", t.Name, strings.Join(t.PK, ", "))
			case 1:
				q = fmt.Sprintf("SELECT COUNT(*) FROM %s", t.Name)
			case 2:
				if g.Bool() {
					// every argument kind the driver accepts, bound
					args = append(args, simkit.Pick(g, []Val{VI(-7), {"u", "18446744073709551615"}, VF(2.5), VS("héllo ✓"), VB([]byte{0, 255, 39}), VT(time.Date(2024, 2, 29, 23, 59, 59, 123000000, time.UTC)), VN()}))
					q = "SELECT ?"
					break
				}
				q = "SELECT " + sg.place(VI(int64(g.Range(-5, 500))), &args) + " + 1"
			case 3:
				// forms the plain driver accepts but a SQL rewriter may not
				q = simkit.Pick(g, []string{"SHOW TABLES", "SELECT 1", "SELECT VERSION()", "SET @x = 1"})
			default:
				w := sg.where(ti, &args)
				q = fmt.Sprintf("SELECT * FROM %s WHERE %s ORDER BY %s", t.Name, w, strings.Join(t.PK, ", "))
				if g.Prob(0.25) {
					q = fmt.Sprintf("SELECT * FROM %s WHERE %s FOR UPDATE", t.Name, w)
				}
			}
			op := "query"
			if g.Prob(0.25) {
				op = "pquery"
			}
			if strings.HasPrefix(q, "SET") {
				op = "exec"
			}
			p.Ops = append(p.Ops, C16Op{Op: op, SQL: q, Args: args, Kind: "select"})
		case x < 46 && !ddlMade && !inTx:
			ddlMade = true
			p.Ops = append(p.Ops, C16Op{Op: "exec", SQL: "CREATE TABLE t_new (id INT NOT NULL PRIMARY KEY, v VARCHAR(16))", Kind: "ddl"})
			p.Ops = append(p.Ops, C16Op{Op: "exec", SQL: "INSERT INTO t_new (id, v) VALUES (1, 'x')", Kind: "insert"})
		case x < 52:
			// statements that fail in the database
			ti := g.Intn(len(p.Tables))
			t := &p.Tables[ti]
			bad := simkit.Pick(g, []string{
				fmt.Sprintf("UPDATE %s SET no_such_col = 1", t.Name),
				"SELEC 1",
				fmt.Sprintf("INSERT INTO %s (%s) VALUES (1)", t.Name, "no_such_col"),
				"DELETE FROM no_such_table WHERE id = 1",
			})
			p.Ops = append(p.Ops, C16Op{Op: "exec", SQL: bad, Kind: "bad"})
		case x < 58:
			// multi-statement text
			a, b := sg.gen(), sg.gen()
			if len(a.Args) == 0 && len(b.Args) == 0 {
				p.Ops = append(p.Ops, C16Op{Op: "exec", SQL: a.SQL + "; " + b.SQL, Kind: "multi"})
			} else {
				p.Ops = append(p.Ops, C16Op{Op: "exec", SQL: a.SQL, Args: a.Args, Kind: a.Kind})
			}
		default:
			st := sg.gen()
			op := "exec"
			if g.Prob(0.2) {
				op = "pexec"
			}
			p.Ops = append(p.Ops, C16Op{Op: op, SQL: st.SQL, Args: st.Args, Kind: st.Kind})
		}
	}
	if inTx {
		p.Ops = append(p.Ops, C16Op{Op: simkit.Pick(g, []string{"commit", "rollback"})})
	}
	// the Go types an application binds: named integer types, uint, *uint64, a
	// Valuer that yields uint64 (sometimes beyond the signed range)
	for oi := range p.Ops {
		for ai := range p.Ops[oi].Args {
			a := &p.Ops[oi].Args[ai]
			if (a.K != "i" && a.K != "u") || strings.HasPrefix(a.V, "-") || !g.Prob(0.25) {
				continue
			}
			a.K = simkit.Pick(g, []string{"U", "W", "P", "X", "I"})
			if a.K == "I" {
				if n, _ := strconv.ParseInt(a.V, 10, 64); n > 1<<31-1 {
					a.K = "U"
				}
			} else if g.Prob(0.2) {
				a.V = simkit.Pick(g, []string{"9223372036854775808", "18446744073709551615", "9223372036854775807"})
			}
		}
	}
	if p.Driver == "at" && g.Prob(0.05) {
		// a batch job: statements that touch a whole block of rows (the image
		// queries of the proxy work in chunks of 1000 keys)
		p.Global = true
		n := simkit.Pick(g, []int{999, 1000, 1000, 1001, 2000})
		big := TableDef{Name: "t_big", Cols: []ColDef{{Name: "id", Type: "int"}, {Name: "grp", Type: "int"}, {Name: "v", Type: "int"}}, PK: []string{"id"}}
		for i := 1; i <= n+3; i++ {
			grp := int64(1)
			if i > n {
				grp = 2
			}
			big.Rows = append(big.Rows, []Val{VI(int64(i)), VI(grp), VI(0)})
		}
		p.Tables = append(p.Tables, big)
		stmt := simkit.Pick(g, []string{"UPDATE t_big SET v = v + 1 WHERE grp = 1", "DELETE FROM t_big WHERE grp = 1", fmt.Sprintf("UPDATE t_big SET v = 7 WHERE grp = 1 ORDER BY id LIMIT %d", n)})
		kind := "update"
		if strings.HasPrefix(stmt, "DELETE") {
			kind = "delete"
		}
		p.Ops = append([]C16Op{{Op: "exec", SQL: stmt, Kind: kind + "-block"}}, p.Ops...)
	}
	if !p.Global && g.Prob(0.3) {
		cl := simkit.Pick(g, []string{"commit", "commit", "update", "insert", "delete", "begin"})
		p.Fault = &DBFault{Class: cl, Nth: g.Range(1, 2), Kind: "error", Num: simkit.Pick(g, []int{1213, 1205, 3101})}
	} else if p.Driver == "at" && !p.Global && g.Prob(0.3) {
		p.Dedicated = g.Bool()
		if g.Bool() || !p.Dedicated {
			// a statement prepared while the global transaction is open, executed
			// by the program after it
			st := sg.gen()
			for k := 0; k < 4 && len(st.Args) == 0; k++ {
				st = sg.gen()
			}
			p.Prelude = append(p.Prelude, C16Op{Op: "pkeep", SQL: st.SQL, Kind: st.Kind})
			at := g.Intn(len(p.Ops) + 1)
			for at < len(p.Ops) && at > 0 && insideTx(p.Ops[:at]) {
				at++
			}
			reuse := C16Op{Op: "preuse", SQL: st.SQL, Args: st.Args, Kind: st.Kind}
			p.Ops = append(p.Ops[:at], append([]C16Op{reuse}, p.Ops[at:]...)...)
		}
		if g.Bool() {
			st := sg.gen()
			p.Prelude = append(p.Prelude, C16Op{Op: "begin"}, C16Op{Op: "exec", SQL: st.SQL, Args: st.Args, Kind: st.Kind}, C16Op{Op: "commit"})
		}
	}
	return p
}

// insideTx: the operations end inside an explicit transaction.
func insideTx(ops []C16Op) bool {
	in := false
	for _, o := range ops {
		switch o.Op {
		case "begin":
			in = true
		case "commit", "rollback":
			in = false
		}
	}
	return in
}

type c16Execer interface {
	ExecContext(ctx context.Context, query string, args ...any) (sql.Result, error)
	QueryContext(ctx context.Context, query string, args ...any) (*sql.Rows, error)
	PrepareContext(ctx context.Context, query string) (*sql.Stmt, error)
}

func c16Rows(rows *sql.Rows) c16Res {
	defer rows.Close()
	var r c16Res
	cols, err := rows.Columns()
	if err != nil {
		return c16Res{Err: err.Error()}
	}
	r.Cols = cols
	if r.Cols == nil {
		r.Cols = []string{}
	}
	for rows.Next() {
		vals := make([]interface{}, len(cols))
		ptrs := make([]interface{}, len(cols))
		for i := range vals {
			ptrs[i] = &vals[i]
		}
		if err := rows.Scan(ptrs...); err != nil {
			return c16Res{Err: "scan: " + err.Error()}
		}
		var parts []string
		for _, v := range vals {
			switch x := v.(type) {
			case []byte:
				parts = append(parts, fmt.Sprintf("[]byte:%q", x))
			case time.Time:
				parts = append(parts, "time:"+x.UTC().Format(time.RFC3339Nano))
			default:
				parts = append(parts, fmt.Sprintf("%T:%v", v, v))
			}
		}
		r.Rows = append(r.Rows, strings.Join(parts, ","))
	}
	if err := rows.Err(); err != nil {
		return c16Res{Err: "rows: " + err.Error()}
	}
	return r
}

// c16Run executes the program and returns one result per operation.
// c16Handle is what a program runs on: the pool (*sql.DB) or one connection
// of it (*sql.Conn).
type c16Handle interface {
	c16Execer
	BeginTx(ctx context.Context, opts *sql.TxOptions) (*sql.Tx, error)
}

// c16Runner keeps what survives from the prelude to the program: the handle
// and the statement that was only prepared.
type c16Runner struct {
	db   c16Handle
	kept *sql.Stmt
}

func c16Run(ctx context.Context, db c16Handle, ops []C16Op) []c16Res {
	return (&c16Runner{db: db}).run(ctx, ops)
}

func (rn *c16Runner) run(ctx context.Context, ops []C16Op) (out []c16Res) {
	db := rn.db
	var tx *sql.Tx
	cur := func() c16Execer {
		if tx != nil {
			return tx
		}
		return db
	}
	for _, op := range ops {
		func() {
			defer func() {
				if p := recover(); p != nil {
					out = append(out, c16Res{Err: fmt.Sprintf("PANIC: %v", p), stack: string(debug.Stack())})
				}
			}()
			args := goArgs(op.Args)
			switch op.Op {
			case "begin":
				var topts *sql.TxOptions
				if op.Kind != "" {
					topts = &sql.TxOptions{ReadOnly: strings.Contains(op.Kind, "ro")}
					switch {
					case strings.Contains(op.Kind, "iso-rc"):
						topts.Isolation = sql.LevelReadCommitted
					case strings.Contains(op.Kind, "iso-rr"):
						topts.Isolation = sql.LevelRepeatableRead
					case strings.Contains(op.Kind, "iso-ser"):
						topts.Isolation = sql.LevelSerializable
					}
				}
				t, err := db.BeginTx(ctx, topts)
				if err != nil {
					out = append(out, c16Res{Err: err.Error()})
					return
				}
				tx = t
				out = append(out, c16Res{})
			case "commit", "rollback":
				if tx == nil {
					out = append(out, c16Res{Err: "no transaction"})
					return
				}
				var err error
				if op.Op == "commit" {
					err = tx.Commit()
				} else {
					err = tx.Rollback()
				}
				tx = nil
				if err != nil {
					out = append(out, c16Res{Err: err.Error()})
				} else {
					out = append(out, c16Res{})
				}
			case "exec":
				res, err := cur().ExecContext(ctx, op.SQL, args...)
				if err != nil {
					out = append(out, c16Res{Err: err.Error()})
					return
				}
				var r c16Res
				r.Affected, _ = res.RowsAffected()
				r.LastID, _ = res.LastInsertId()
				out = append(out, r)
			case "query":
				rows, err := cur().QueryContext(ctx, op.SQL, args...)
				if err != nil {
					out = append(out, c16Res{Err: err.Error()})
					return
				}
				out = append(out, c16Rows(rows))
			case "pexec", "pquery":
				st, err := cur().PrepareContext(ctx, op.SQL)
				if err != nil {
					out = append(out, c16Res{Err: "prepare: " + err.Error()})
					return
				}
				defer st.Close()
				if op.Op == "pexec" {
					res, err := st.ExecContext(ctx, args...)
					if err != nil {
						out = append(out, c16Res{Err: err.Error()})
						return
					}
					var r c16Res
					r.Affected, _ = res.RowsAffected()
					r.LastID, _ = res.LastInsertId()
					out = append(out, r)
				} else {
					rows, err := st.QueryContext(ctx, args...)
					if err != nil {
						out = append(out, c16Res{Err: err.Error()})
						return
					}
					out = append(out, c16Rows(rows))
				}
			case "pkeep":
				st, err := cur().PrepareContext(ctx, op.SQL)
				if err != nil {
					out = append(out, c16Res{Err: "prepare: " + err.Error()})
					return
				}
				rn.kept = st
				out = append(out, c16Res{})
			case "preuse":
				if rn.kept == nil {
					out = append(out, c16Res{Err: "no kept statement"})
					return
				}
				st := rn.kept
				if tx != nil {
					st = tx.StmtContext(ctx, st)
				}
				res, err := st.ExecContext(ctx, args...)
				if err != nil {
					out = append(out, c16Res{Err: err.Error()})
					return
				}
				var r c16Res
				r.Affected, _ = res.RowsAffected()
				r.LastID, _ = res.LastInsertId()
				out = append(out, r)
			default:
				out = append(out, c16Res{Err: "unknown op " + op.Op})
			}
		}()
	}
	if tx != nil {
		tx.Rollback()
	}
	return out
}

// c16Stream renders the statements a server saw (transaction control and
// statements, without pool housekeeping and connection set-up).
func c16Stream(j []simdb.JEntry, okOnly bool) []string {
	var out []string
	for _, e := range j {
		if okOnly && e.Err != "" {
			continue
		}
		switch e.Kind {
		case "EXEC", "QUERY", "PREPARE", "BEGIN", "COMMIT", "ROLLBACK":
		default:
			continue
		}
		// the proxy's own metadata look-ups are not business statements
		up := strings.ToUpper(e.SQL)
		if e.Class == "connect" || (e.Class == "meta" && (strings.Contains(up, "INFORMATION_SCHEMA") || strings.Contains(up, "AUTO_INCREMENT_INCREMENT"))) {
			continue
		}
		s := e.Kind + " " + strings.TrimSpace(e.SQL)
		if len(e.Args) > 0 {
			var as []string
			for _, a := range e.Args {
				as = append(as, fmt.Sprintf("%T:%v", a, a))
			}
			s += " [" + strings.Join(as, " ") + "]"
		}
		out = append(out, s)
	}
	return out
}

// c16Feature names the statement features known findings are keyed on.
func c16Feature(plan *C16Plan, op C16Op) string {
	up := strings.ToUpper(op.SQL)
	feat := ""
	if k := strings.Index(up, " WHERE "); k >= 0 && strings.Contains(op.SQL[k:], "'") {
		feat += "-where-string-literal"
	}
	switch op.Kind {
	case "multi":
		parts := strings.Split(op.SQL, "; ")
		kinds := map[string]bool{}
		for _, p := range parts {
			kinds[strings.ToLower(strings.Fields(p)[0])] = true
		}
		if len(kinds) == 1 && (kinds["update"] || kinds["delete"]) {
			feat += "-all-" + keysOf(kinds)[0]
			if strings.Contains(up, " LIMIT ") {
				feat += "-limit"
			}
		} else {
			feat += "-mixed-or-insert"
		}
	case "upsert", "insert":
		// column list without the (auto-increment) primary key
		if a, b := strings.Index(op.SQL, "("), strings.Index(op.SQL, ")"); a >= 0 && b > a {
			cols := map[string]bool{}
			for _, c := range strings.Split(op.SQL[a+1:b], ",") {
				cols[strings.TrimSpace(c)] = true
			}
			for _, t := range plan.Tables {
				if strings.Contains(op.SQL, "INTO "+t.Name+" ") {
					for _, pk := range t.PK {
						if !cols[pk] {
							feat += "-pk-not-listed"
							break
						}
					}
				}
			}
		}
	}
	return feat
}

var c16DriverSeq int

func runC16(t *testing.T, seed uint64, planJSON []byte, tier string) (res *Result) {
	res = &Result{}
	var plan *C16Plan
	var tape *simkit.Tape
	if planJSON != nil {
		plan = &C16Plan{}
		if err := json.Unmarshal(planJSON, plan); err != nil {
			res.InvalidPlan = err.Error()
			return res
		}
		if len(plan.Tables) == 0 || (plan.Driver != "at" && plan.Driver != "xa") {
			res.InvalidPlan = "no tables / unknown driver"
			return res
		}
		tape = simkit.ReplayTape(plan.Tape)
	} else {
		plan = genC16Plan(seed, tier)
		tape = simkit.NewTape(seed)
	}
	res.Harness = runBubbleP(t, plan, func(t *testing.T) {
		w := bootAT(seed, tape, plan.Cfg, simnet.Config{FragmentPct: 5})
		sim := w.Sim
		sim.Known = loadKnown("C16")
		sim.MaxStep = 3000000
		sim.MaxTime = 100000 * time.Hour
		w.CreateUndoLog(atSchema)
		// the reference server and its bare handle
		srvB := simdb.NewServer("simdb1", plan.Cfg.ServerVersion)
		applyServerCfg(srvB, plan.Cfg)
		srvB.LockWaitTimeout = 5 * time.Second
		c16DriverSeq++
		nameB := fmt.Sprintf("simdb-c16-bare-%d", c16DriverSeq)
		if plan.Fault != nil && !plan.Global && len(plan.Prelude) == 0 {
			// the reference server gets a hook of its own that only injects the fault
			hookB := newDBHook(sim)
			hookB.park = false
			srvB.Hook = hookB
			sql.Register(nameB, &simdb.Driver{Srv: srvB})
			hookB.Reset([]DBFault{*plan.Fault})
		} else {
			sql.Register(nameB, &simdb.Driver{Srv: srvB, NoHook: true})
		}
		for i := range plan.Tables {
			for _, s := range []*simdb.Server{w.Srv, srvB} {
				if err := plan.Tables[i].install(s, atSchema); err != nil {
					res.InvalidPlan = "table " + plan.Tables[i].Name + ": " + err.Error()
					return
				}
				if err := plan.Tables[i].load(s, atSchema); err != nil {
					res.InvalidPlan = err.Error()
					return
				}
			}
		}
		w.Net.Open(TCAddr)
		sim.Run(func() bool { return w.TC.SessionIsTM(0) && sim.Enabled() == 0 })
		var dbA *sql.DB
		var err error
		dsn := "root:pw@tcp(simdb1:3306)/" + atSchema + simDSNParams
		ok := runOnActor(sim, "open-ds", 300*time.Second, func() {
			if plan.Driver == "xa" {
				dbA, err = sql.Open("seata-xa-sim", dsn)
			} else {
				dbA, err = w.OpenDS(atSchema)
			}
			if err == nil {
				err = dbA.Ping()
			}
		})
		if !ok || err != nil {
			res.Harness = fmt.Sprintf("cannot open the proxied data source: done=%v err=%v", ok, err)
			return
		}
		dbB, err := sql.Open(nameB, dsn)
		if err != nil {
			res.Harness = err.Error()
			return
		}
		// identical pool state: one warmed connection on each side
		dbB.Ping()
		settleP2 := func() {
			t1 := sim.Now()
			sim.Run(func() bool {
				return sim.Now()-t1 > 600*time.Second || (sim.Enabled() == 0 && w.TC.PendingP2() == 0 && sim.Now()-t1 > 5*time.Second)
			})
		}
		rnA, rnB := &c16Runner{db: dbA}, &c16Runner{db: dbB}
		var preA, preB []c16Res
		var perr error
		if len(plan.Prelude) > 0 || plan.Dedicated {
			// the same handle serves the prelude (inside a global transaction on
			// the proxied side) and then the program
			if plan.Dedicated {
				cb, err := dbB.Conn(context.Background())
				if err != nil {
					res.Harness = err.Error()
					return
				}
				rnB.db = cb
			}
			preB = rnB.run(context.Background(), plan.Prelude)
			okp := runOnActor(sim, "c16-prelude", 1200*time.Second, func() {
				if plan.Dedicated {
					ca, err := dbA.Conn(context.Background())
					if err != nil {
						perr = err
						return
					}
					rnA.db = ca
				}
				perr = tm.WithGlobalTx(context.Background(), &tm.GtxConfig{Name: "c16-prelude", Timeout: 60 * time.Second}, func(ctx context.Context) error {
					preA = rnA.run(ctx, plan.Prelude)
					return nil
				})
			})
			if !okp {
				sim.Violate("C16", "same-result", "prelude-stuck", "the operations inside the global transaction before the program did not finish")
			}
			settleP2()
			w.Sim.Probe("c16-program-after-global-transaction-on-same-handle")
		}
		if plan.Fault != nil && !plan.Global && len(plan.Prelude) == 0 {
			w.Hook.Reset([]DBFault{*plan.Fault})
			if hb, ok := srvB.Hook.(*dbHook); ok {
				hb.Reset([]DBFault{*plan.Fault})
			}
			w.Sim.Probe("c16-same-database-error-on-both-servers")
		}
		jA0, jB0 := w.Srv.JournalLen(), srvB.JournalLen()
		tc0 := len(w.TC.Log)
		// reference run (inline: the bare server has no hook)
		resB := rnB.run(context.Background(), plan.Ops)
		// proxied run
		var resA []c16Res
		var gerr error
		done := runOnActor(sim, "c16-program", 1200*time.Second, func() {
			if plan.Global {
				gerr = tm.WithGlobalTx(context.Background(), &tm.GtxConfig{Name: "c16", Timeout: 60 * time.Second}, func(ctx context.Context) error {
					resA = rnA.run(ctx, plan.Ops)
					return nil
				})
			} else {
				resA = rnA.run(context.Background(), plan.Ops)
			}
		})
		// let phase two of the commit finish
		t1 := sim.Now()
		sim.Run(func() bool {
			return sim.Now()-t1 > 600*time.Second || (sim.Enabled() == 0 && w.TC.PendingP2() == 0 && sim.Now()-t1 > 5*time.Second)
		})
		mode := plan.Driver
		if plan.Global {
			mode += "-global"
		} else {
			mode += "-local"
		}
		preMismatch := false
		if len(plan.Prelude) > 0 || plan.Dedicated {
			mode += "-after-global"
			if plan.Dedicated {
				mode += "-conn"
			}
			if perr != nil {
				sim.Note("prelude: global transaction result: %v", perr)
			}
			for i := range plan.Prelude {
				if i >= len(preA) || i >= len(preB) {
					break
				}
				if a, b := preA[i], preB[i]; a.String() != b.String() {
					kind := "result"
					if a.Err != "" && b.Err == "" {
						kind = "error-only-through-proxy"
					}
					sim.Violate("C16", "same-result", fmt.Sprintf("%s-at-global-%s-%s%s", kind, plan.Prelude[i].Op, plan.Prelude[i].Kind, c16Feature(plan, plan.Prelude[i])), "prelude operation %d (%s %q %v) inside the global transaction returned through the proxy: %s; through the bare driver: %s", i, plan.Prelude[i].Op, plan.Prelude[i].SQL, plan.Prelude[i].Args, a, b)
					preMismatch = true
					break
				}
			}
		}
		if preMismatch {
			// one root cause, one report: the two databases differ from here on
		} else if !done {
			sim.Violate("C16", "same-result", "program-stuck-"+mode, "the program did not finish through the proxy within 1200 simulated seconds (it finished on the bare driver)")
		} else {
			if gerr != nil {
				sim.Note("global transaction result: %v", gerr)
			}
			// per-operation results
			mismatch := false
			for i := range plan.Ops {
				if i >= len(resA) || i >= len(resB) {
					break
				}
				a, b := resA[i], resB[i]
				if a.String() != b.String() {
					kind := "result"
					switch {
					case strings.HasPrefix(a.Err, "PANIC"):
						kind = "panic"
						sim.Note("panic stack: %s", a.stack)
					case a.Err != "" && b.Err == "":
						kind = "error-only-through-proxy"
					case a.Err == "" && b.Err != "":
						kind = "error-lost"
					case a.Err != "" && b.Err != "":
						kind = "error-text"
					case a.Cols != nil:
						kind = "rows"
					}
					mismatch = true
					feat := c16Feature(plan, plan.Ops[i])
					sim.Violate("C16", "same-result", fmt.Sprintf("%s-%s-%s-%s%s", kind, mode, plan.Ops[i].Op, plan.Ops[i].Kind, feat), "operation %d (%s %q %v) returned through the %s proxy: %s; through the bare driver: %s", i, plan.Ops[i].Op, plan.Ops[i].SQL, plan.Ops[i].Args, plan.Driver, a, b)
					break
				}
			}
			// final data
			da := appSnapshot(w.Srv.Snapshot())
			dbs := appSnapshot(srvB.Snapshot())
			if d := simdb.Diff(dbs, da); len(d) > 0 && gerr == nil && !mismatch {
				sim.Violate("C16", "same-data", "data-differs-"+mode, "after the program the proxied database differs from the bare one (bare -> proxied): %s", diffSummary(d))
			}
			// inside a global transaction a statement the database rejects may be
			// stopped earlier by the proxy (its image query fails the same way):
			// only statements that succeeded are matched there
			sa, sb := c16Stream(w.Srv.JournalFrom(jA0), plan.Global), c16Stream(srvB.JournalFrom(jB0), plan.Global)
			if mismatch {
				// one root cause, one report
			} else if !plan.Global {
				// same statements, same order, same arguments
				n := len(sa)
				if len(sb) < n {
					n = len(sb)
				}
				diffAt := -1
				for i := 0; i < n; i++ {
					if sa[i] != sb[i] {
						diffAt = i
						break
					}
				}
				if diffAt < 0 && len(sa) != len(sb) {
					diffAt = n
				}
				if diffAt >= 0 {
					get := func(s []string, i int) string {
						if i < len(s) {
							return s[i]
						}
						return "<nothing>"
					}
					sim.Violate("C16", "same-statements", "statement-stream-differs-"+mode, "outside a global transaction statement %d reaching the database is %q through the proxy and %q through the bare driver", diffAt, get(sa, diffAt), get(sb, diffAt))
				}
				// no coordinator traffic
				for _, rec := range w.TC.Log[tc0:] {
					if rec.In && rec.F.Body != nil {
						sim.Violate("C16", "no-coordinator-traffic", "coordinator-message-"+mode, "outside a global transaction the client sent %s to the coordinator", rec.F.Body)
						break
					}
				}
			} else {
				// the business statements reach the database in order; whatever else
				// the proxy sends is an image query, the undo log or transaction control
				bi := 0
				for _, s := range sa {
					if bi < len(sb) && s == sb[bi] {
						bi++
						continue
					}
					up := strings.ToUpper(s)
					okExtra := strings.HasPrefix(up, "QUERY SELECT") || strings.HasPrefix(up, "EXEC SELECT") || strings.HasPrefix(up, "PREPARE") || strings.HasPrefix(up, "BEGIN") || strings.HasPrefix(up, "COMMIT") || strings.HasPrefix(up, "ROLLBACK") || strings.Contains(up, "UNDO_LOG") ||
						strings.HasPrefix(up, "QUERY SAVEPOINT") || strings.HasPrefix(up, "EXEC SAVEPOINT") || strings.Contains(up, "RELEASE SAVEPOINT") || strings.Contains(up, "ROLLBACK TO")
					if !okExtra {
						sim.Violate("C16", "only-transactional-extras", "extra-statement-"+mode, "inside a global transaction the proxy sent %q, which is neither a business statement of the program in order, an image query, the undo log nor transaction control", s)
						break
					}
				}
			}
		}
		for _, op := range plan.Ops {
			sim.State(fmt.Sprintf("!c16 %s %s %s args=%d", mode, op.Op, op.Kind, len(op.Args)))
		}
		res.Episodes = len(plan.Ops)
		plan.Tape = tape.Rec
		if len(res.Samples) < 1 {
			res.Samples = append(res.Samples, map[string]any{"plan": plan})
		}
		finishResult(res, sim)
	})
	res.Plan, _ = json.Marshal(plan)
	res.Components = atComponents
	return res
}

func init() { engines["C16"] = runC16 }
