package sim

import (
	"encoding/json"
	"errors"
	"fmt"
	"runtime"
	"seata.apache.org/seata-go/pkg/rm/tcc"
	"strings"
	"testing"
	"time"

	"seata.apache.org/seata-go/pkg/protocol/message"
	"seata.apache.org/seata-go/pkg/remoting/getty"

	"verif/simkit"
	"verif/simnet"
	"verif/simtc"
)

// C14 — concurrent requests are answered by their own responses; stragglers
// do no harm.

type C14Episode struct {
	// per caller: normal | slow | dup | silent | late
	Callers []string `json:"callers"`
	// CloseAfterMs > 0: the coordinator closes the session that long after
	// the first request arrived (requests still pending), then reconnects.
	CloseAfterMs int `json:"close_after_ms"`
	// OneWay: one-way requests (announcements) sent alongside, 0 = none; their
	// replies arrive (answered) or are swallowed by the coordinator (lost)
	OneWay     int  `json:"one_way,omitempty"`
	OneWayLost bool `json:"one_way_lost,omitempty"`
	// ServerRequest: while the first caller's request is pending the coordinator
	// sends a request of its own (a branch commit for a resource this client does
	// not have) whose message id equals that of the pending request - the two
	// sides number their messages independently -, and the client's answer to
	// it meets a transient write error
	ServerRequest bool `json:"server_request,omitempty"`
}

type C14Plan struct {
	HeartbeatMs int `json:"heartbeat_ms"` // 0 = no OnCron heart-beats
	// GettyOrder: the transport reconnects the way dubbo-getty does (see simnet)
	GettyOrder bool         `json:"getty_order,omitempty"`
	Episodes   []C14Episode `json:"episodes"`
	Tape       []int        `json:"tape"`
}

func genC14(seed uint64, tier string) *C14Plan {
	g := simkit.NewGen(seed)
	n := 12
	if tier == "thorough" {
		n = 60
	}
	p := &C14Plan{}
	if g.Bool() {
		p.HeartbeatMs = simkit.Pick(g, []int{5000, 15000})
	}
	p.GettyOrder = g.Bool()
	for i := 0; i < n; i++ {
		var e C14Episode
		nc := g.Range(1, 12)
		faulty := g.Prob(0.7)
		for j := 0; j < nc; j++ {
			a := "normal"
			if faulty && g.Prob(0.4) {
				a = simkit.Pick(g, []string{"slow", "slow", "dup", "dup", "silent", "late", "werr"})
			}
			e.Callers = append(e.Callers, a)
		}
		if g.Prob(0.15) {
			e.CloseAfterMs = simkit.Pick(g, []int{1, 50, 700, 4000})
		}
		if g.Prob(0.3) {
			e.OneWay = g.Range(1, 3)
			e.OneWayLost = g.Bool()
		}
		e.ServerRequest = e.CloseAfterMs == 0 && g.Prob(0.15)
		p.Episodes = append(p.Episodes, e)
	}
	return p
}

type c14Caller struct {
	name     string
	act      string
	sentAt   time.Duration
	reqID    int32
	seenByTC bool
	// kind: which request the caller sends (0 begin, 1 lock query, 2 branch
	// register, 3 global commit, 4 global rollback, 5 branch report)
	kind int
	// writeFailed: the write of the request was refused (kind "werr")
	writeFailed bool
	deliv       []time.Duration // instants a reply for this request was handed to the client's handler
	resp        interface{}
	err         error
	done        bool
	doneAt      time.Duration
	panicked    interface{}
}

func parkedInResponseDelivery() int {
	buf := make([]byte, 4<<20)
	buf = buf[:runtime.Stack(buf, true)]
	n := 0
	for _, g := range strings.Split(string(buf), "\n\n") {
		if strings.Contains(g, "NotifyRpcMessageResponse") || strings.Contains(g, "clientOnResponseProcessor).Process") {
			n++
		}
	}
	return n
}

func runC14(t *testing.T, seed uint64, planJSON []byte, tier string) (res *Result) {
	res = &Result{}
	var plan *C14Plan
	var tape *simkit.Tape
	if planJSON != nil {
		plan = &C14Plan{}
		if err := json.Unmarshal(planJSON, plan); err != nil {
			res.InvalidPlan = err.Error()
			return res
		}
		tape = simkit.ReplayTape(plan.Tape)
	} else {
		plan = genC14(seed, tier)
		tape = simkit.NewTape(seed)
	}
	res.Harness = runBubbleP(t, plan, func(t *testing.T) {
		w := bootRemoting(seed, tape, BootCfg{LoadBalance: "RandomLoadBalance", CommitRetry: 1, RollbackRetry: 1},
			simnet.Config{FragmentPct: 15, Reconnect: true, ReconnectAfter: 3 * time.Second, Heartbeat: time.Duration(plan.HeartbeatMs) * time.Millisecond, ParkWrites: true, GettyOrder: plan.GettyOrder})
		sim, tc, net := w.Sim, w.TC, w.Net
		sim.Known = loadKnown("C14")
		sim.MaxStep = 2000000
		sim.MaxTime = 5000 * time.Hour
		// a resource manager, so that a branch request of the coordinator gets an
		// answer (the TCC one: it knows no resource and answers with a failure)
		tcc.InitTCC()
		net.Open(TCAddr)
		sim.Run(func() bool { return tc.SessionIsTM(0) && sim.Enabled() == 0 })
		stopYield := func() {}
		if *flagMode == "yield" {
			if !yieldBuilt {
				res.Harness = "mode yield needs the binary built from the instrumented copy (tag verifyield)"
				return
			}
			ys := installYieldParked(sim, seed)
			stopYield = func() {
				fired, sites := ys.stop()
				for i := 0; i < fired; i++ {
					sim.Fault("goroutine-parked-at-sync-operation")
				}
				sim.Note("scheduling points: %d parks at %d active sites", fired, sites)
				// let the goroutines still parked at a point go on (the points are off now)
				sim.Run(func() bool { return sim.Enabled() == 0 })
			}
		}

		var callers map[string]*c14Caller
		byID := map[int32]*c14Caller{}
		var firstSeen time.Duration = -1
		closeFired := false
		var ep *C14Episode
		net.OnDispatch = func(sess int, pkg interface{}, consumed int) {
			if rm, ok := pkg.(message.RpcMessage); ok {
				if c := byID[rm.ID]; c != nil && rm.Type == message.GettyRequestTypeResponse {
					c.deliv = append(c.deliv, sim.Now())
				}
			}
		}
		tc.Hook = func(sess int, f *simtc.Frame) bool {
			m := f.Body
			if callers == nil {
				return false
			}
			var c *c14Caller
			switch m.Code {
			case simtc.TGlobalBegin:
				c = callers[m.Name]
			case simtc.TGlobalLockQuery, simtc.TBranchRegister, simtc.TGlobalCommit, simtc.TGlobalRollback, simtc.TBranchReport:
				// (the callers of an episode use the request kinds of a transaction's
				// life; each is told apart by the xid it names)
				c = callers[m.Xid]
			}
			if c == nil {
				return false
			}
			c.seenByTC = true
			c.reqID = f.ID
			byID[f.ID] = c
			// (the fresh request after the disturbance triggers none itself)
			isFresh := strings.HasSuffix(c.name, "-fresh")
			if ep != nil && ep.ServerRequest && firstSeen < 0 && !isFresh {
				clash := f.ID
				failOnce := true
				net.WriteHook = func(sid int, code int) error {
					if code == simtc.TBranchCommitResult && failOnce {
						failOnce = false
						return errors.New("simnet: write would block (injected)")
					}
					return nil
				}
				sim.Fault("tc-request-with-clashing-message-id")
				sim.Post(fmt.Sprintf("tc-own-request|%d|%010d", sess, uint32(clash)), 7*time.Microsecond, "", func() {
					if net.IsOpen(sess) {
						rq := &simtc.Frame{Type: simtc.FrameRequest, Codec: f.Codec, ID: clash, Body: &simtc.Msg{Code: simtc.TBranchCommit, Xid: TCAddr + ":777", BranchID: 4242, ResourceID: "c14-no-such-resource", BranchType: 1}}
						sim.Logf("TC-> s%d own request with message id %d", sess, clash)
						net.ToClient(sess, simtc.EncodeFrame(rq))
					}
				})
			}
			if firstSeen < 0 && !isFresh {
				firstSeen = sim.Now()
				if ep != nil && ep.CloseAfterMs > 0 {
					sim.Post("c14-close", time.Duration(ep.CloseAfterMs)*time.Millisecond+13*time.Microsecond, "", func() {
						closeFired = true
						for _, s := range net.Sessions() {
							if !s.IsClosed() {
								net.CloseFromServer(s.SimID())
							}
						}
					})
				}
			}
			resp := &simtc.Msg{Code: simtc.ResultCodeFor(m.Code), Result: simtc.ResultSuccess}
			switch m.Code {
			case simtc.TGlobalBegin:
				resp.Xid = "xid-for-" + m.Name
			case simtc.TGlobalLockQuery:
				resp.Lockable = true
			case simtc.TBranchRegister:
				resp.BranchID = c14BranchOf(c.name)
			case simtc.TGlobalCommit:
				resp.GlobalStatus = simtc.GSCommitted
			case simtc.TGlobalRollback:
				resp.GlobalStatus = simtc.GSRollbacked
			}
			fr := &simtc.Frame{Type: simtc.FrameResponse, Codec: f.Codec, ID: f.ID, Body: resp}
			send := func(d time.Duration, tag string) {
				sim.Post(fmt.Sprintf("tc-reply|%d|%010d%s", sess, uint32(f.ID), tag), d, "", func() {
					if net.IsOpen(sess) {
						sim.Logf("TC-> s%d reply to %s (%s)", sess, c.name, c.act)
						net.ToClient(sess, simtc.EncodeFrame(fr))
					}
				})
			}
			lat := []time.Duration{0, 137 * time.Microsecond, 1003 * time.Microsecond, 17011 * time.Microsecond, 203007 * time.Microsecond}
			base := lat[sim.Tape.Choose(len(lat))]
			sim.Fault("tc-reply-" + c.act)
			switch c.act {
			case "normal":
				send(base, "")
			case "slow":
				send(base+time.Duration(1+sim.Tape.Choose(5))*time.Second+31*time.Microsecond, "")
			case "dup":
				send(base, "a")
				send(base+lat[sim.Tape.Choose(len(lat))], "b")
			case "silent":
			case "late":
				send(tc.RPCTimeout+1500*time.Millisecond+base, "")
			}
			return true
		}

		// callers of kind "werr": the write of their request meets an error (the
		// request never leaves the client)
		net.WriteHookFrame = func(sid int, f *simtc.Frame) error {
			if f.Body != nil && callers != nil {
				c := callers[f.Body.Name]
				if c == nil {
					c = callers[f.Body.Xid]
				}
				if c != nil && c.act == "werr" {
					c.writeFailed = true
					return errors.New("simnet: write failed (injected)")
				}
			}
			return nil
		}
		for i := range plan.Episodes {
			ep = &plan.Episodes[i]
			net.WriteHook = nil
			callers = map[string]*c14Caller{}
			firstSeen = -1
			closeFired = false
			futBefore := getty.VerifPendingFutures()
			parkedBefore := parkedInResponseDelivery()
			var list []*c14Caller
			for j, a := range ep.Callers {
				c := &c14Caller{name: fmt.Sprintf("c14-%d-%d", i, j), act: a, kind: j % 6}
				callers[c.name] = c
				list = append(list, c)
			}
			if ep.OneWay > 0 {
				// one-way requests (the client's announcements) whose replies may never come
				tc.Rules = nil
				if ep.OneWayLost {
					tc.Rules = []simtc.Rule{{Code: simtc.TRegTM, Nth: 0, Action: simtc.ActSilent}}
					sim.Fault("tc-oneway-reply-lost")
				}
				n := ep.OneWay
				sim.Go("one-way", func() {
					for k := 0; k < n; k++ {
						if err := getty.GetGettyRemotingClient().SendAsyncRequest(message.RegisterTMRequest{AbstractIdentifyRequest: message.AbstractIdentifyRequest{Version: "1.5.2", ApplicationId: "simapp", TransactionServiceGroup: "simgroup"}}); err != nil {
							sim.Note("one-way request: %v", err)
						}
					}
				})
			}
			for _, c := range list {
				c := c
				sim.Go("caller", func() {
					// the tape decides in which order callers issue their requests
					sim.Park("c14-call|"+c.name, "")
					c.sentAt = sim.Now()
					defer func() {
						if r := recover(); r != nil {
							c.panicked = r
						}
						c.done = true
						c.doneAt = sim.Now()
					}()
					c.resp, c.err = getty.GetGettyRemotingClient().SendSyncRequest(c14Request(c.name, c.kind))
				})
			}
			t0 := sim.Now()
			allDone := func() bool {
				for _, c := range list {
					if !c.done {
						return false
					}
				}
				return true
			}
			// bound: session wait (60 s) + RPC timeout + slack, from the documented timeouts
			ok := sim.Run(func() bool { return allDone() || sim.Now()-t0 > 200*time.Second })
			_ = ok
			// the disturbance must be over before the fresh request is issued
			if ep.CloseAfterMs > 0 && firstSeen >= 0 {
				sim.Run(func() bool { return closeFired || sim.Now()-t0 > 300*time.Second })
			}
			// make sure a live registered session exists again, then the fresh request
			sim.Run(func() bool {
				for _, s := range net.Sessions() {
					if !s.IsClosed() && tc.SessionIsTM(s.SimID()) {
						return true
					}
				}
				return sim.Now()-t0 > 400*time.Second
			})
			fresh := &c14Caller{name: fmt.Sprintf("c14-%d-fresh", i), act: "normal"}
			callers[fresh.name] = fresh
			sim.Go("fresh", func() {
				fresh.sentAt = sim.Now()
				defer func() {
					if r := recover(); r != nil {
						fresh.panicked = r
					}
					fresh.done = true
				}()
				fresh.resp, fresh.err = getty.GetGettyRemotingClient().SendSyncRequest(message.GlobalBeginRequest{TransactionName: fresh.name, Timeout: 60 * time.Second})
			})
			t1 := sim.Now()
			sim.Run(func() bool { return fresh.done || sim.Now()-t1 > 100*time.Second })
			// let late replies and time-outs happen, then look at the bookkeeping
			t2 := sim.Now()
			sim.Run(func() bool { return sim.Now()-t2 > 45*time.Second && sim.Enabled() == 0 })
			tc.Rules = nil
			res.Episodes++
			futAfter := getty.VerifPendingFutures()
			parkedAfter := parkedInResponseDelivery()
			checkC14(sim, i, ep, list, fresh, futAfter-futBefore, parkedAfter-parkedBefore)
			sig := fmt.Sprintf("n=%d acts=%v close=%d", len(list), actSet(ep.Callers), ep.CloseAfterMs)
			if len(list) > 1 {
				sig = "!" + sig
			}
			sim.State(sig)
			if len(res.Samples) < 2 {
				res.Samples = append(res.Samples, map[string]any{"episode": ep, "futures_delta": futAfter - futBefore, "parked_delta": parkedAfter - parkedBefore})
			}
			if len(sim.Violations()) > 0 || !allDone() {
				break
			}
		}
		callers = nil
		plan.Tape = tape.Rec
		stopYield()
		finishResult(res, sim)
	})
	res.Plan, _ = json.Marshal(plan)
	res.Components = map[string]string{"pkg/remoting/getty (client, remoting futures, listener, session manager)": "real", "pkg/remoting/processor/client": "real", "pkg/protocol/codec": "real", "gost task pool": "real", "dubbo-getty transport": "stub (simnet)", "coordinator": "scripted responder over simtc codec"}
	return res
}

func actSet(a []string) string {
	m := map[string]int{}
	for _, x := range a {
		m[x]++
	}
	return fmt.Sprintf("n%d/s%d/d%d/x%d/l%d/w%d", m["normal"], m["slow"], m["dup"], m["silent"], m["late"], m["werr"])
}

func checkC14(sim *simkit.Sim, idx int, ep *C14Episode, list []*c14Caller, fresh *c14Caller, futDelta, parkedDelta int) {
	v := func(clause, class, f string, a ...any) {
		sim.Violate("C14", clause, class, "episode %d %+v: %s", idx, *ep, fmt.Sprintf(f, a...))
	}
	check := func(c *c14Caller) {
		if !c.done {
			v("termination", "caller-stuck", "caller %s (%s) never returned", c.name, c.act)
			return
		}
		if c.panicked != nil {
			v("no-crash", "caller-panic", "caller %s (%s) panicked: %v", c.name, c.act, c.panicked)
			return
		}
		// was a reply delivered to the client while the caller was still waiting?
		inTime := false
		for _, d := range c.deliv {
			if d-c.sentAt < 19*time.Second {
				inTime = true
			}
		}
		if c.err == nil {
			switch c.kind {
			case 0:
				r, ok := c.resp.(message.GlobalBeginResponse)
				if !ok {
					v("own-response", "wrong-type", "caller %s got %T", c.name, c.resp)
					return
				}
				if r.Xid != "xid-for-"+c.name {
					v("own-response", "foreign-response", "caller %s received xid %q (someone else's reply)", c.name, r.Xid)
				}
			case 1:
				if r, ok := c.resp.(message.GlobalLockQueryResponse); !ok || !r.Lockable {
					v("own-response", "wrong-type", "caller %s (lock query) got %T %+v", c.name, c.resp, c.resp)
					return
				}
			case 2:
				if r, ok := c.resp.(message.BranchRegisterResponse); !ok {
					v("own-response", "wrong-type", "caller %s (branch register) got %T", c.name, c.resp)
					return
				} else if r.BranchId != c14BranchOf(c.name) {
					v("own-response", "foreign-response", "caller %s received branch id %d (someone else's reply)", c.name, r.BranchId)
				}
			case 3:
				if _, ok := c.resp.(message.GlobalCommitResponse); !ok {
					v("own-response", "wrong-type", "caller %s (global commit) got %T", c.name, c.resp)
					return
				}
			case 4:
				if _, ok := c.resp.(message.GlobalRollbackResponse); !ok {
					v("own-response", "wrong-type", "caller %s (global rollback) got %T", c.name, c.resp)
					return
				}
			case 5:
				if _, ok := c.resp.(message.BranchReportResponse); !ok {
					v("own-response", "wrong-type", "caller %s (branch report) got %T", c.name, c.resp)
					return
				}
			}
			if len(c.deliv) == 0 {
				v("own-response", "response-from-nowhere", "caller %s returned a response but none was delivered", c.name)
			}
		} else if inTime {
			v("own-response", "lost-response", "caller %s (%s) got error %v although its reply was delivered %v after the request", c.name, c.act, c.err, c.deliv[0]-c.sentAt)
		}
	}
	for _, c := range list {
		check(c)
	}
	if !fresh.done {
		v("fresh-request", "fresh-stuck", "a fresh request after the disturbance never returned")
	} else if fresh.err != nil || fresh.panicked != nil {
		v("fresh-request", "fresh-failed", "a fresh request after the disturbance failed: %v %v", fresh.err, fresh.panicked)
	} else {
		check(fresh)
	}
	if parkedDelta > 0 {
		cls := "parked"
		if ep.CloseAfterMs > 0 {
			cls = "parked-after-session-loss"
		}
		has := func(a string) bool {
			for _, c := range list {
				if c.act == a {
					return true
				}
			}
			return false
		}
		if has("late") {
			cls = "parked-late-reply"
		} else if has("dup") && cls == "parked" {
			cls = "parked-duplicate-reply"
		}
		v("stragglers-harmless", cls, "%d goroutine(s) parked forever in response delivery", parkedDelta)
	}
	if futDelta > 0 {
		cls := "futures-left"
		timedOut := 0
		for _, c := range list {
			if c.err != nil {
				timedOut++
			}
		}
		werr := false
		for _, c := range list {
			werr = werr || c.writeFailed
		}
		if werr {
			cls = "futures-left-after-write-error"
		} else if timedOut > 0 {
			cls = "futures-left-after-timeout"
		} else if sim.Probes["heartbeat-sent"] > 0 {
			cls = "futures-left-by-oneway"
		}
		v("no-bookkeeping-left", cls, "%d pending future(s) left behind (%d callers timed out)", futDelta, timedOut)
	}
}

func init() { engines["C14"] = runC14 }

// c14BranchOf: the branch id the coordinator grants to the registration that
// names xid (unique per caller).
func c14BranchOf(name string) int64 {
	var h int64 = 7
	for _, ch := range name {
		h = h*131 + int64(ch)
	}
	if h < 0 {
		h = -h
	}
	return h%1000000000 + 1
}

// c14Request: the request of a caller; every kind names the caller in a field
// the coordinator can read (transaction name / xid).
func c14Request(name string, kind int) interface{} {
	switch kind {
	case 1:
		return message.GlobalLockQueryRequest{BranchRegisterRequest: message.BranchRegisterRequest{Xid: name, BranchType: 0, ResourceId: "c14-res", LockKey: "T:1"}}
	case 2:
		return message.BranchRegisterRequest{Xid: name, BranchType: 0, ResourceId: "c14-res", LockKey: "T:2"}
	case 3:
		return message.GlobalCommitRequest{AbstractGlobalEndRequest: message.AbstractGlobalEndRequest{Xid: name}}
	case 4:
		return message.GlobalRollbackRequest{AbstractGlobalEndRequest: message.AbstractGlobalEndRequest{Xid: name}}
	case 5:
		return message.BranchReportRequest{Xid: name, BranchId: 4711, Status: 2, ResourceId: "c14-res"}
	}
	return message.GlobalBeginRequest{TransactionName: name, Timeout: 60 * time.Second}
}
