package sim

import (
	"context"
	"encoding/json"
	"errors"
	"fmt"
	"testing"
	"time"

	"seata.apache.org/seata-go/pkg/tm"

	"verif/simkit"
	"verif/simnet"
	"verif/simtc"
)

// C04 — each global transaction gets exactly one truthful decision from its
// initiator. Light engine: many episodes in one bubble; TM-only workload
// against the coordinator model with a per-attempt behaviour script.

type C04Episode struct {
	Outcome       string   `json:"outcome"` // nil | error | panic
	Joined        bool     `json:"joined"`
	CommitRetry   int      `json:"commit_retry"`
	RollbackRetry int      `json:"rollback_retry"`
	Begin         []string `json:"begin"` // per attempt: ok fail werr silent close
	End           []string `json:"end"`
	Cancel        string   `json:"cancel"` // "" | before-begin | during-business | during-second
	// SlowEnd: the coordinator takes 5 s for its answers to end requests (a
	// cancellation "during-second" then falls between request and answer)
	SlowEnd bool `json:"slow_end,omitempty"`
	// Nested: the business callback opens a scope of its own on the context
	// it was given (default propagation: it joins); "join-err": that inner
	// callback fails and the outer one carries on regardless
	Nested string `json:"nested,omitempty"`
}

type C04Plan struct {
	Episodes []C04Episode `json:"episodes"`
	Tape     []int        `json:"tape"`
}

var c04Acts = []string{"ok", "fail", "werr", "silent", "close"}

func genC04(seed uint64, tier string) *C04Plan {
	g := simkit.NewGen(seed)
	n := 60
	if tier == "thorough" {
		n = 400
	}
	p := &C04Plan{}
	for i := 0; i < n; i++ {
		e := C04Episode{
			Outcome:       simkit.Pick(g, []string{"nil", "nil", "error", "panic"}),
			Joined:        g.Prob(0.12),
			CommitRetry:   simkit.Pick(g, []int{0, 1, 2, 3, 5}),
			RollbackRetry: simkit.Pick(g, []int{0, 1, 2, 3, 5}),
		}
		// swarm: most episodes have few faults
		faulty := g.Prob(0.6)
		bl := 1
		for j := 0; j < bl; j++ {
			a := "ok"
			if faulty && g.Prob(0.15) {
				a = simkit.Pick(g, c04Acts)
			}
			e.Begin = append(e.Begin, a)
		}
		el := g.Range(0, 7)
		for j := 0; j < el; j++ {
			a := "ok"
			if faulty && g.Prob(0.55) {
				a = simkit.Pick(g, c04Acts)
			}
			e.End = append(e.End, a)
			if a == "ok" && g.Prob(0.7) {
				break
			}
		}
		if g.Prob(0.15) {
			e.Cancel = simkit.Pick(g, []string{"before-begin", "during-business", "during-second"})
		}
		e.SlowEnd = g.Prob(0.3)
		if g.Prob(0.2) {
			e.Nested = simkit.Pick(g, []string{"join-ok", "join-ok", "join-err"})
		}
		p.Episodes = append(p.Episodes, e)
	}
	return p
}

type c04State struct {
	ep       *C04Episode
	name     string
	begin    []string
	end      []string
	xid      string
	beginTry []string // what each begin attempt met
	endTry   []string // what each end attempt met (in order, incl. werr)
	endKind  []int    // request code of each end attempt
	cancel   context.CancelFunc
	cancelAt string
	bizRan   bool
	bizXid   string
}

func pop(s *[]string) string {
	if len(*s) == 0 {
		return "ok"
	}
	v := (*s)[0]
	*s = (*s)[1:]
	return v
}

func runC04(t *testing.T, seed uint64, planJSON []byte, tier string) (res *Result) {
	res = &Result{}
	var plan *C04Plan
	if planJSON != nil {
		plan = &C04Plan{}
		if err := json.Unmarshal(planJSON, plan); err != nil {
			res.InvalidPlan = err.Error()
			return res
		}
	} else {
		plan = genC04(seed, tier)
	}
	var tape *simkit.Tape
	if planJSON != nil {
		tape = simkit.ReplayTape(plan.Tape)
	} else {
		tape = simkit.NewTape(seed)
	}
	res.Harness = runBubbleP(t, plan, func(t *testing.T) {
		w := bootRemoting(seed, tape, BootCfg{LoadBalance: "RandomLoadBalance", CommitRetry: 5, RollbackRetry: 5},
			simnet.Config{FragmentPct: 20, Reconnect: true, ReconnectAfter: 3 * time.Second})
		sim, tc, net := w.Sim, w.TC, w.Net
		sim.Known = loadKnown("C04")
		sim.MaxStep = 400000
		sim.MaxTime = 2000 * time.Hour
		tc.AutoP2 = false
		net.Open(TCAddr)
		sim.Run(func() bool { return tc.SessionIsTM(0) })

		var st *c04State
		net.WriteHook = func(sess int, code int) error {
			if st == nil {
				return nil
			}
			switch code {
			case simtc.TGlobalBegin:
				if len(st.begin) > 0 && st.begin[0] == "werr" {
					pop(&st.begin)
					st.beginTry = append(st.beginTry, "werr")
					return errors.New("simnet: injected write error")
				}
			case simtc.TGlobalCommit, simtc.TGlobalRollback:
				if len(st.end) > 0 && st.end[0] == "werr" {
					pop(&st.end)
					st.endTry = append(st.endTry, "werr")
					st.endKind = append(st.endKind, code)
					return errors.New("simnet: injected write error")
				}
			}
			return nil
		}
		tc.Hook = func(sess int, f *simtc.Frame) bool {
			if st == nil {
				return false
			}
			m := f.Body
			var act string
			switch m.Code {
			case simtc.TGlobalBegin:
				if m.Name != st.name {
					return false
				}
				act = pop(&st.begin)
				st.beginTry = append(st.beginTry, act)
			case simtc.TGlobalCommit, simtc.TGlobalRollback:
				act = pop(&st.end)
				st.endTry = append(st.endTry, act)
				st.endKind = append(st.endKind, m.Code)
				if st.cancelAt == "during-second" && len(st.endTry) == 1 {
					c := st.cancel
					sim.Post("c04-cancel", 3*time.Second+77*time.Microsecond, "", func() { c() })
				}
			default:
				return false
			}
			sim.Fault("tc-script-" + act)
			switch act {
			case "ok":
				if st.ep.SlowEnd && m.Code != simtc.TGlobalBegin {
					tc.Rules = append(tc.Rules, simtc.Rule{Code: m.Code, Nth: tc.CountOf(m.Code) + 1, Action: simtc.ActSlow})
				}
				return false
			case "fail":
				resp := &simtc.Msg{Code: simtc.ResultCodeFor(m.Code), Result: simtc.ResultFailed, Message: "scripted failure", ExCode: 1}
				f2 := &simtc.Frame{Type: simtc.FrameResponse, Codec: f.Codec, ID: f.ID, Body: resp}
				sim.Post(fmt.Sprintf("tc-reply|%d|%010d", sess, uint32(f.ID)), 211*time.Microsecond, "", func() {
					if net.IsOpen(sess) {
						net.ToClient(sess, simtc.EncodeFrame(f2))
					}
				})
				return true
			case "silent":
				return true
			case "close":
				net.CloseFromServer(sess)
				return true
			}
			return false
		}

		for i := range plan.Episodes {
			ep := &plan.Episodes[i]
			st = &c04State{ep: ep, name: fmt.Sprintf("ep%d", i), begin: append([]string(nil), ep.Begin...), end: append([]string(nil), ep.End...), cancelAt: ep.Cancel}
			tm.InitTm(tm.TmConfig{CommitRetryCount: ep.CommitRetry, RollbackRetryCount: ep.RollbackRetry, DefaultGlobalTransactionTimeout: 60 * time.Second})
			ctx, cancel := context.WithCancel(context.Background())
			st.cancel = cancel
			if ep.Joined {
				ctx = tm.InitSeataContext(ctx)
				tm.SetXID(ctx, TCAddr+":424242")
			}
			if ep.Cancel == "before-begin" {
				cancel()
			}
			var ret error
			var escaped interface{}
			done := false
			t0 := sim.Now()
			cur := st
			sim.Go("c04-actor", func() {
				defer func() {
					if r := recover(); r != nil {
						escaped = r
					}
					done = true
				}()
				ret = tm.WithGlobalTx(ctx, &tm.GtxConfig{Name: cur.name, Timeout: 60 * time.Second}, func(c context.Context) error {
					cur.bizRan = true
					cur.bizXid = tm.GetXID(c)
					if ep.Nested != "" {
						sim.Probe("c04-nested-scope-" + ep.Nested)
						ierr := tm.WithGlobalTx(c, &tm.GtxConfig{Name: cur.name + "-inner", Timeout: 60 * time.Second}, func(c2 context.Context) error {
							if x := tm.GetXID(c2); x != cur.bizXid {
								sim.Violate("C04", "one-decision", "nested-scope-other-xid", "episode %d: the scope opened inside the business callback ran under xid %q, the enclosing one under %q", i, x, cur.bizXid)
							}
							if ep.Nested == "join-err" {
								return errors.New("inner scope failed")
							}
							return nil
						})
						if (ierr != nil) != (ep.Nested == "join-err") {
							sim.Violate("C04", "truthful-return", "nested-scope-return", "episode %d: the joined inner scope (%s) returned %v", i, ep.Nested, ierr)
						}
					}
					if cur.cancelAt == "during-business" {
						cancel()
					}
					switch ep.Outcome {
					case "error":
						return errors.New("business failed")
					case "panic":
						panic("business panic")
					}
					return nil
				})
			})
			// bound from the configured values only: attempts x (RPC timeout +
			// max back-off + session wait) + slack
			maxRetry := ep.CommitRetry
			if ep.RollbackRetry > maxRetry {
				maxRetry = ep.RollbackRetry
			}
			if maxRetry < 1 {
				maxRetry = 1
			}
			bound := time.Duration(maxRetry+2)*(20*time.Second+200*time.Millisecond+61*time.Second) + 10*time.Second
			deadline := t0 + bound
			sim.Run(func() bool { return done || sim.Now() > deadline })
			res.Episodes++
			checkC04(sim, tc, cur, i, ret, escaped, done)
			cancel()
			if !done {
				// the actor is stuck: nothing more can be learned in this process
				break
			}
			if len(sim.Violations()) > 0 {
				break
			}
			// let stragglers drain and make sure a live, registered session exists
			sim.Run(func() bool {
				for _, s := range net.Sessions() {
					if !s.IsClosed() && tc.SessionIsTM(s.SimID()) {
						return sim.Enabled() == 0
					}
				}
				return false
			})
			sig := fmt.Sprintf("%s|j=%v|b=%v|e=%v|c=%s|r=%d/%d", ep.Outcome, ep.Joined, cur.beginTry, cur.endTry, ep.Cancel, ep.CommitRetry, ep.RollbackRetry)
			if ep.Outcome != "nil" || ep.Joined || ep.Cancel != "" || !allOK(cur.beginTry) || !allOK(cur.endTry) {
				sig = "!" + sig
			}
			sim.State(sig)
			if len(res.Samples) < 3 {
				res.Samples = append(res.Samples, map[string]any{"episode": ep, "begin_met": cur.beginTry, "end_met": cur.endTry, "returned": fmt.Sprint(ret)})
			}
		}
		st = nil
		plan.Tape = tape.Rec
		finishResult(res, sim)
	})
	res.Plan, _ = json.Marshal(plan)
	res.Components = map[string]string{"pkg/tm": "real", "pkg/remoting/getty (client, remoting, listener, session manager, frame codec)": "real", "pkg/protocol/codec": "real", "dubbo-getty transport": "stub (simnet)", "coordinator": "model (simtc)"}
	return res
}

func checkC04(sim *simkit.Sim, tc *simtc.TC, st *c04State, idx int, ret error, escaped interface{}, done bool) {
	ep := st.ep
	v := func(clause, class, f string, a ...any) {
		sim.Violate("C04", clause, class, "episode %d %+v: %s", idx, *ep, fmt.Sprintf(f, a...))
	}
	if !done {
		v("termination", "hang", "WithGlobalTx did not return within the bound derived from the configured retry counts (begin met %v, end met %v)", st.beginTry, st.endTry)
		return
	}
	if escaped != nil {
		v("no-crash", "panic-escaped", "panic escaped WithGlobalTx: %v", escaped)
		return
	}
	beginOK := false
	for _, a := range st.beginTry {
		if a == "ok" {
			beginOK = true
		}
	}
	if ep.Joined {
		if len(st.beginTry) > 0 {
			v("joined-no-begin", "joined-begin", "joined transaction sent GlobalBegin")
		}
		if len(st.endTry) > 0 {
			v("joined-no-end", "joined-end", "participant sent an end request %v", st.endKind)
		}
	} else {
		if len(st.beginTry) > 1 {
			v("one-begin", "begin-repeated", "GlobalBegin attempted %d times", len(st.beginTry))
		}
		if st.bizRan && !beginOK {
			v("begin-before-business", "business-without-begin", "business ran although begin did not succeed (%v)", st.beginTry)
		}
		if !beginOK && ret == nil {
			v("truthful-return", "nil-without-begin", "returned nil although no transaction was begun (%v)", st.beginTry)
		}
		if !beginOK && len(st.endTry) > 0 {
			v("decision", "end-without-begin", "end request without a begun transaction")
		}
	}
	want := simtc.TGlobalRollback
	retry := ep.RollbackRetry
	if ep.Outcome == "nil" {
		want = simtc.TGlobalCommit
		retry = ep.CommitRetry
	}
	acked := false
	for i, k := range st.endKind {
		if k != want {
			v("decision", "wrong-decision", "sent end request code %d but the business outcome was %s", k, ep.Outcome)
		}
		if st.endTry[i] == "ok" && k == simtc.TGlobalCommit {
			acked = true
		}
		if (st.endTry[i] == "ok" || st.endTry[i] == "fail") && i != len(st.endKind)-1 {
			v("retry-only-on-transport-failure", "retry-after-reply", "request re-sent after the coordinator had replied (%v)", st.endTry)
		}
	}
	maxAttempts := retry
	if maxAttempts < 1 {
		maxAttempts = 1
	}
	if len(st.endTry) > maxAttempts {
		v("retry-bound", "too-many-attempts", "%d end attempts with configured retry count %d", len(st.endTry), retry)
	}
	if !ep.Joined && beginOK && st.bizRan && ep.Cancel == "" && len(st.endTry) == 0 {
		v("decision", "no-decision", "no end request was sent for a begun transaction")
	}
	if ret == nil {
		switch {
		case ep.Outcome != "nil":
			v("truthful-return", "nil-after-business-"+ep.Outcome, "returned nil although the business outcome was %s", ep.Outcome)
		case !ep.Joined && beginOK && !acked:
			cls := "nil-without-ack"
			if ep.Cancel != "" && len(st.endTry) == 0 {
				cls = "nil-after-cancel"
			} else if len(st.endTry) > 0 && st.endTry[len(st.endTry)-1] == "fail" {
				cls = "nil-after-failed-commit"
			}
			v("truthful-return", cls, "returned nil but no commit was acknowledged (end met %v, cancel %q)", st.endTry, ep.Cancel)
		}
		if !ep.Joined && (ep.Cancel == "before-begin" || ep.Cancel == "during-business") {
			if !(ep.Outcome != "nil") && !(!ep.Joined && beginOK && !acked) {
				v("cancel-surfaces", "nil-after-cancel", "context was cancelled before the second phase but nil was returned")
			}
		}
	} else if ep.Outcome == "nil" && ep.Cancel == "" && (ep.Joined || (beginOK && acked)) && allOK(st.beginTry) && allOK(st.endTry) {
		v("truthful-return", "error-on-clean-success", "fault-free successful transaction returned %v", ret)
	}
}

func allOK(xs []string) bool {
	for _, x := range xs {
		if x != "ok" {
			return false
		}
	}
	return true
}

func init() { engines["C04"] = runC04 }
