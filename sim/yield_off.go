//go:build !verifyield

package sim

const yieldBuilt = false

type yieldState struct{}

func installYield(seed uint64) *yieldState      { return nil }
func (st *yieldState) stop() (fired, sites int) { return 0, 0 }
