//go:build !verifyield

package sim

import "verif/simkit"

const yieldBuilt = false

type yieldState struct{}

func installYield(seed uint64) *yieldState                        { return nil }
func installYieldParked(sim *simkit.Sim, seed uint64) *yieldState { return nil }
func (st *yieldState) stop() (fired, sites int)                   { return 0, 0 }
func (st *yieldState) recursiveReadLocks() (n, metWriter int)     { return 0, 0 }

func heldByGoroutine(id uint64) (n int, known bool) { return 0, false }
func (st *yieldState) windows() int                 { return 0 }
