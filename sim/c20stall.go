package sim

import (
	"encoding/json"
	"fmt"
	"os"
	"regexp"
	"runtime"
	"strconv"
	"strings"
	"sync/atomic"
	"testing"
	"time"

	"verif/simkit"
)

// Lock-up detection for the free-running engine (C20).
//
// Inside a synctest bubble a goroutine waiting for a sync.Mutex is not
// "durably" blocked: while one waits, the fake clock stands still. If the
// client locks up for good (a goroutine that never releases a lock others
// need), the bubble therefore stops dead in REAL time: no statement, no
// message, no timer. A real-time observer outside the bubble watches a
// progress counter; when nothing has moved for a while it takes all stacks and
// decides:
//
//   - some bubble goroutine waits on a sync primitive below a frame of the
//     client, and no goroutine sleeps inside the harness (statement latency,
//     scheduling-point delay): the client has locked up -> violation of
//     "every transaction terminates";
//   - a goroutine sleeps inside the harness while another waits for a client
//     mutex: the harness itself froze the clock (client lock held across a
//     simulated delay) -> harness trouble, exit 2, never a violation.
var c20Progress int64

func c20Tick() { atomic.AddInt64(&c20Progress, 1) }

var goroutineHeadRe = regexp.MustCompile(`^goroutine (\d+) \[([^\]]*)\]:`)
var clientFrameRe = regexp.MustCompile(`^seata\.apache\.org/seata-go/pkg/([^\s(]+(?:\([^)]*\))?[^\s(]*)\(`)

type stackInfo struct {
	id     uint64
	state  string
	frames []string // function lines
	text   string
}

func allStacks() []stackInfo {
	buf := make([]byte, 8<<20)
	buf = buf[:runtime.Stack(buf, true)]
	var out []stackInfo
	for _, blk := range strings.Split(string(buf), "\n\n") {
		lines := strings.Split(strings.TrimSpace(blk), "\n")
		if len(lines) == 0 {
			continue
		}
		m := goroutineHeadRe.FindStringSubmatch(lines[0])
		if m == nil {
			continue
		}
		si := stackInfo{state: m[2], text: blk}
		si.id, _ = strconv.ParseUint(m[1], 10, 64)
		for _, l := range lines[1:] {
			if !strings.HasPrefix(l, "\t") && !strings.HasPrefix(l, "created by") {
				si.frames = append(si.frames, l)
			}
		}
		out = append(out, si)
	}
	return out
}

// classifyStall: see the comment on c20Progress.
func classifyStall(stacks []stackInfo) (lockedUp bool, class, detail, harnessWhy string) {
	var blocked []stackInfo
	for _, s := range stacks {
		if !strings.Contains(s.state, "synctest bubble") {
			continue
		}
		if strings.HasPrefix(s.state, "running") || strings.HasPrefix(s.state, "runnable") {
			// something can still run: slow, not locked up - unless it is the
			// client itself that runs without getting anywhere (see spinningIn)
			return false, "", "", ""
		}
		inHarnessSleep := false
		for _, f := range s.frames {
			if strings.HasPrefix(f, "time.Sleep(") {
				inHarnessSleep = true
			}
		}
		if inHarnessSleep && strings.HasPrefix(s.state, "sleep") {
			// only a sleep reached from inside the client (through a hook of the
			// harness: statement latency, scheduling-point delay) can hold a
			// client lock; a harness goroutine of its own that polls with a
			// sleep holds none
			below := false
			for _, f := range s.frames {
				if clientFrameRe.MatchString(f) {
					below = true
				}
			}
			if below {
				// with the instrumented client the simulator counts the client
				// mutexes every goroutine holds: a sleeper that holds none keeps
				// nobody waiting
				if n, known := heldByGoroutine(s.id); known && n == 0 {
					below = false
				}
			}
			for _, f := range s.frames {
				if below && strings.HasPrefix(f, "verif/") {
					harnessWhy = "a goroutine sleeps inside the harness (" + strings.SplitN(f, "(", 2)[0] + ") below client code while the clock cannot advance"
				}
			}
		}
		st := s.state
		if strings.HasPrefix(st, "sync.Mutex.Lock") || strings.HasPrefix(st, "sync.RWMutex") || strings.HasPrefix(st, "semacquire") || strings.HasPrefix(st, "sync.WaitGroup") || strings.HasPrefix(st, "sync.Cond") {
			for _, f := range s.frames {
				if clientFrameRe.MatchString(f) {
					blocked = append(blocked, s)
					break
				}
			}
		}
	}
	if len(blocked) == 0 {
		return false, "", "", harnessWhy
	}
	if harnessWhy != "" {
		return false, "", "", harnessWhy
	}
	// class: the client function in which the first blocked goroutine waits
	// (innermost client frame), most frequent first for stability
	count := map[string]int{}
	for _, b := range blocked {
		for _, f := range b.frames {
			if m := clientFrameRe.FindStringSubmatch(f); m != nil {
				count[m[1]]++
				break
			}
		}
	}
	best := ""
	for k, n := range count {
		if best == "" || n > count[best] || (n == count[best] && k < best) {
			best = k
		}
	}
	clean := strings.NewReplacer("/", ".", "(", "", ")", "", "*", "").Replace(best)
	var sb strings.Builder
	for i, b := range blocked {
		if i >= 4 {
			fmt.Fprintf(&sb, "... and %d more\n", len(blocked)-i)
			break
		}
		t := b.text
		if len(t) > 1800 {
			t = t[:1800] + "..."
		}
		sb.WriteString(t)
		sb.WriteString("\n\n")
	}
	return true, "lock-up-" + clean, fmt.Sprintf("%d goroutine(s) wait for ever on a lock below the client and nothing else can run:\n%s", len(blocked), sb.String()), ""
}

// startStallObserver runs outside the bubble. quiet: how long nothing may
// move. done: closed when the run is over.
func startStallObserver(prop string, seed uint64, plan func() []byte, out string, quiet time.Duration, done <-chan struct{}) {
	go func() {
		last := atomic.LoadInt64(&c20Progress)
		lastMove := time.Now()
		for {
			select {
			case <-done:
				return
			case <-time.After(2 * time.Second):
			}
			if cur := atomic.LoadInt64(&c20Progress); cur != last {
				last, lastMove = cur, time.Now()
				continue
			}
			if time.Since(lastMove) < quiet {
				continue
			}
			stacks := allStacks()
			locked, class, detail, why := classifyStall(stacks)
			if locked {
				// look twice: the same picture a little later, and still no progress
				time.Sleep(3 * time.Second)
				l2, c2, _, _ := classifyStall(allStacks())
				if !l2 || c2 != class || atomic.LoadInt64(&c20Progress) != last {
					lastMove = time.Now()
					continue
				}
			}
			if !locked && why == "" {
				if ll, c, d := classifyLivelock(func() int64 { return atomic.LoadInt64(&c20Progress) }); ll {
					locked, class, detail = true, c, d
				}
			}
			if !locked {
				if why == "" {
					continue // slow, or stuck elsewhere: the watchdog decides
				}
				fmt.Fprintf(os.Stderr, "STALL (harness): %s\n", why)
				if out != "" {
					b, _ := json.Marshal(&Result{Property: prop, Seed: seed, Harness: "stall: " + why})
					os.WriteFile(out, b, 0o644)
				}
				os.Exit(2)
			}
			res := &Result{Property: prop, Seed: seed, Plan: plan(), Faults: map[string]int{}, Probes: map[string]int{"lock-up-observed": 1},
				Violations: []simkit.Violation{{Property: prop, Clause: "termination", Class: class, Detail: detail}}, Components: atComponents}
			b, _ := json.Marshal(res)
			if out != "" {
				os.WriteFile(out, b, 0o644)
			}
			fmt.Fprintf(os.Stderr, "LOCK-UP: %s\n%s\n", class, detail)
			os.Exit(1)
		}
	}()
}

// ---- the same observer for the engines that run under the seeded scheduler ----
//
// There a client goroutine that waits for ever on a client mutex keeps
// synctest.Wait from returning: the run stops dead in real time, which used to
// end in the watchdog's "harness trouble". The scheduler ticks the progress
// counter once per iteration; when nothing moves, the stacks decide as above.
// The plan and the choices made so far are written out so that the replay
// reaches the same lock-up.

var stallPlanObj atomic.Value // func() any

// runBubbleP is runBubble for an engine with a plan (kept for the observer).
func runBubbleP(t *testing.T, plan any, f func(t *testing.T)) string {
	stallPlanObj.Store(func() any { return plan })
	return runBubble(t, f)
}

func stallPlanJSON() []byte {
	f, _ := stallPlanObj.Load().(func() any)
	if f == nil {
		return nil
	}
	b, err := json.Marshal(f())
	if err != nil {
		return nil
	}
	tp := simkit.CurrentTape.Load()
	if tp == nil {
		return b
	}
	var m map[string]json.RawMessage
	if json.Unmarshal(b, &m) != nil {
		return b
	}
	if _, has := m["tape"]; has {
		rec, _ := json.Marshal(tp.Rec)
		m["tape"] = rec
		if b2, err := json.Marshal(m); err == nil {
			return b2
		}
	}
	return b
}

// spinningIn: the client functions in which bubble goroutines are running or
// runnable right now (innermost client frame of each such goroutine).
func spinningIn(stacks []stackInfo) map[string]string {
	out := map[string]string{}
	for _, s := range stacks {
		if !strings.Contains(s.state, "synctest bubble") {
			continue
		}
		if !strings.HasPrefix(s.state, "running") && !strings.HasPrefix(s.state, "runnable") {
			continue
		}
		for _, f := range s.frames {
			if strings.HasPrefix(f, "verif/sim.(*yieldState)") || strings.HasPrefix(f, "verif/sim.installYield") || strings.HasPrefix(f, "verif/sim.goid") || strings.HasPrefix(f, "verif/sim.yieldHash") || strings.Contains(f, "/pkg/util/simyield.") {
				continue // a scheduling point on the way: transparent
			}
			if strings.HasPrefix(f, "verif/") {
				break // below harness code: the harness is at work
			}
			if m := clientFrameRe.FindStringSubmatch(f); m != nil {
				out[m[1]] = s.text
				break
			}
		}
	}
	return out
}

// classifyLivelock: nothing has moved for the quiet period, and in three looks
// one second apart some goroutine is running in the same client function
// without a harness frame above it: the client spins (a goroutine that never
// blocks keeps the fake clock, and with it everything else, from moving).
func classifyLivelock(progress func() int64) (bool, string, string) {
	p0 := progress()
	common := spinningIn(allStacks())
	for i := 0; i < 3 && len(common) > 0; i++ {
		time.Sleep(time.Second)
		if progress() != p0 {
			return false, "", ""
		}
		next := spinningIn(allStacks())
		for k := range common {
			if _, ok := next[k]; !ok {
				delete(common, k)
			} else {
				common[k] = next[k]
			}
		}
	}
	if len(common) == 0 {
		return false, "", ""
	}
	best := ""
	for k := range common {
		if best == "" || k < best {
			best = k
		}
	}
	clean := strings.NewReplacer("/", ".", "(", "", ")", "", "*", "").Replace(best)
	t := common[best]
	if len(t) > 2500 {
		t = t[:2500] + "..."
	}
	return true, "livelock-" + clean, fmt.Sprintf("a goroutine runs inside the client without making progress (no statement, no message, no scheduler step for the observation period) and keeps everything else from moving:\n%s", t)
}
