package sim

import (
	"context"
	"database/sql"
	"encoding/json"
	"fmt"
	"sort"
	"strings"
	"testing"
	"time"

	"github.com/anishathalye/porcupine"

	"seata.apache.org/seata-go/pkg/rm/tcc/fence"
	"seata.apache.org/seata-go/pkg/rm/tcc/fence/enum"
	"seata.apache.org/seata-go/pkg/tm"
	"seata.apache.org/seata-go/pkg/util/log"

	"verif/simdb"
	"verif/simkit"
)

// C06 — TCC fence: idempotence, anti-suspension and empty rollback.
//
// Deliveries of prepare / commit / rollback for 1-3 branches that share the
// fence table are executed against the real fence code over the database
// model, one after the other or two at a time (racing, statements interleaved
// by the tape), with database faults at generated statements. The business
// effect of a delivery is a row in an effects table written in the same local
// transaction. Oracles: (1) the recorded history of every branch is
// linearizable against the fence state machine (porcupine); (2) in the final
// database the fence status and the committed effects agree.

type C06Step struct {
	Ops []C06Op `json:"ops"` // 1 = alone, 2 = racing
}

type C06Op struct {
	Branch int    `json:"branch"`
	Phase  string `json:"phase"` // prepare | commit | rollback
}

type C06Plan struct {
	Mode string `json:"mode"` // api (WithFence on the business transaction) | driver (seata fence driver)
	// SharedCtx: the tries of one global transaction that run alone share a context
	SharedCtx bool      `json:"shared_ctx,omitempty"`
	Branches  int       `json:"branches"`
	SameXid   bool      `json:"same_xid"`
	Steps     []C06Step `json:"steps"`
	Faults    []DBFault `json:"faults,omitempty"`
	Tape      []int     `json:"tape"`
}

func genC06Plan(seed uint64, tier string, mode string) *C06Plan {
	g := simkit.NewGen(seed)
	p := &C06Plan{Mode: mode, Branches: g.Range(1, 3), SameXid: g.Bool()}
	p.SharedCtx = p.SameXid && g.Bool()
	n := g.Range(2, 6)
	if tier == "thorough" {
		n = g.Range(2, 9)
	}
	phases := []string{"prepare", "commit", "rollback"}
	for i := 0; i < n; i++ {
		st := C06Step{Ops: []C06Op{{Branch: g.Intn(p.Branches), Phase: simkit.Pick(g, phases)}}}
		if g.Prob(0.3) {
			b := st.Ops[0].Branch
			if g.Prob(0.2) {
				b = g.Intn(p.Branches)
			}
			st.Ops = append(st.Ops, C06Op{Branch: b, Phase: simkit.Pick(g, phases)})
		}
		p.Steps = append(p.Steps, st)
	}
	if g.Prob(0.5) {
		nf := g.Range(1, 2)
		for i := 0; i < nf; i++ {
			cl := simkit.Pick(g, []string{"begin", "insert-fence", "select-for-update-fence", "update-fence", "insert", "commit", "commit"})
			kind := simkit.Pick(g, []string{"error", "error", "badconn"})
			if cl == "commit" && g.Prob(0.3) {
				kind = "invalidconn"
			}
			p.Faults = append(p.Faults, DBFault{Class: cl, Nth: g.Range(1, n+1), Kind: kind, Num: 1205})
		}
	}
	if g.Prob(0.12) {
		// steered: two tries of one global transaction, one after the other on
		// the caller's context, the first one losing its business COMMIT
		p.Branches, p.SameXid, p.SharedCtx = 2+g.Intn(2), true, true
		first := []C06Step{{Ops: []C06Op{{Branch: 0, Phase: "prepare"}}}, {Ops: []C06Op{{Branch: 1, Phase: "prepare"}}}}
		p.Steps = append(first, p.Steps...)
		p.Faults = []DBFault{{Class: "commit", Nth: 1, Kind: simkit.Pick(g, []string{"error", "badconn"}), Num: 1205}}
		if g.Bool() {
			// ... or unable to open its fence transaction (the second BEGIN)
			p.Faults = []DBFault{{Class: "begin", Nth: 2, Kind: simkit.Pick(g, []string{"error", "badconn"}), Num: 1205}}
		}
	}
	return p
}

type c06Rec struct {
	id       int
	op       C06Op
	call     int64
	ret      int64
	err      error
	ran      bool // the business callback ran
	applied  bool // its effect row is committed
	faulted  bool
	raced    bool
	alone    bool // the only delivery of its step
	wrote    int
	conn0    int
	jstart   int
	finished bool
}

type c06In struct {
	phase string
}
type c06Out struct {
	applied, err bool
	// wrote: the fence status the delivery's committed transaction wrote (0 = none)
	wrote int
	// faulted: a database fault was injected during the delivery; raced: another
	// delivery for the same branch ran concurrently. Either explains a delivery
	// that fails without any effect (the coordinator retries it).
	faulted, raced bool
}

const (
	fsNone = iota
	fsTried
	fsCommitted
	fsRollbacked
	fsSuspended
)

var c06Model = porcupine.Model{
	Init: func() interface{} { return fsNone },
	Step: func(state, input, output interface{}) (bool, interface{}) {
		s := state.(int)
		in := input.(c06In)
		out := output.(c06Out)
		excused := out.faulted || out.raced // a delivery may fail without any effect then
		switch in.phase {
		case "prepare":
			switch out.wrote {
			case fsTried:
				return s == fsNone && out.applied, fsTried
			case 0:
				if out.applied || !out.err {
					return false, s // effect without fence record / success without try
				}
				return excused || s != fsNone, s
			}
		case "commit":
			switch out.wrote {
			case fsCommitted:
				return s == fsTried && out.applied, fsCommitted
			case 0:
				if out.applied {
					return false, s
				}
				if !out.err {
					return s == fsCommitted, s
				}
				return excused || s != fsTried, s
			}
		case "rollback":
			switch out.wrote {
			case fsRollbacked:
				return s == fsTried && out.applied, fsRollbacked
			case fsSuspended:
				return s == fsNone && !out.applied, fsSuspended
			case 0:
				if out.applied {
					return false, s
				}
				if !out.err {
					return s == fsRollbacked || s == fsSuspended, s
				}
				return excused || (s != fsNone && s != fsTried), s
			}
		}
		return false, s
	},
	DescribeOperation: func(input, output interface{}) string {
		in, out := input.(c06In), output.(c06Out)
		return fmt.Sprintf("%s -> fence-status-written=%d effect=%v err=%v faulted=%v raced=%v", in.phase, out.wrote, out.applied, out.err, out.faulted, out.raced)
	},
}

var c06Seq int

func runC06(t *testing.T, seed uint64, planJSON []byte, tier string) (res *Result) {
	res = &Result{}
	var plan *C06Plan
	var tape *simkit.Tape
	if planJSON != nil {
		plan = &C06Plan{}
		if err := json.Unmarshal(planJSON, plan); err != nil {
			res.InvalidPlan = err.Error()
			return res
		}
		if plan.Branches < 1 || plan.Branches > 4 || (plan.Mode != "api" && plan.Mode != "driver") {
			res.InvalidPlan = "branches / mode out of range"
			return res
		}
		for _, st := range plan.Steps {
			if len(st.Ops) < 1 || len(st.Ops) > 2 {
				res.InvalidPlan = "step size"
				return res
			}
			for _, op := range st.Ops {
				if op.Branch < 0 || op.Branch >= plan.Branches || (op.Phase != "prepare" && op.Phase != "commit" && op.Phase != "rollback") {
					res.InvalidPlan = "op out of range"
					return res
				}
			}
		}
		tape = simkit.ReplayTape(plan.Tape)
	} else {
		mode := *flagMode
		if mode == "" {
			mode = []string{"api", "api", "driver"}[seed%3]
		}
		plan = genC06Plan(seed, tier, mode)
		tape = simkit.NewTape(seed)
	}
	res.Harness = runBubbleP(t, plan, func(t *testing.T) {
		sim := simkit.NewSim(tape)
		sim.Known = loadKnown("C06")
		sim.MaxStep = 2000000
		sim.MaxTime = 100000 * time.Hour
		log.SetLogger(nopLogger{sim})
		srv := simdb.NewServer("simdb1", "8.0.30")
		srv.LockWaitTimeout = 5 * time.Second
		hook := newDBHook(sim)
		srv.Hook = hook
		srv.CreateTable("shop", "tcc_fence_log", []*simdb.Column{
			simdb.NewColumn("xid", "varchar(128)", "not null"),
			simdb.NewColumn("branch_id", "bigint", "not null"),
			simdb.NewColumn("action_name", "varchar(64)", "not null"),
			simdb.NewColumn("status", "tinyint", "not null"),
			simdb.NewColumn("gmt_create", "datetime(3)", "not null"),
			simdb.NewColumn("gmt_modified", "datetime(3)", "not null"),
		}, []string{"xid", "branch_id"}, nil)
		srv.CreateTable("shop", "effects", []*simdb.Column{
			simdb.NewColumn("id", "bigint", "not null", "auto_increment"),
			simdb.NewColumn("op", "int", "not null"),
			simdb.NewColumn("xid", "varchar(128)", "not null"),
			simdb.NewColumn("branch_id", "bigint", "not null"),
			simdb.NewColumn("phase", "varchar(16)", "not null"),
		}, []string{"id"}, nil)
		c06Seq++
		plainName := fmt.Sprintf("simdb-c06-%d", c06Seq)
		fenceName := fmt.Sprintf("seata-fence-sim-%d", c06Seq)
		sql.Register(plainName, &simdb.Driver{Srv: srv})
		sql.Register(fenceName, &fence.FenceDriver{TargetDriver: &simdb.Driver{Srv: srv}})
		dsn := "root:pw@tcp(simdb1:3306)/shop" + simDSNParams
		name := plainName
		if plan.Mode == "driver" {
			name = fenceName
		}
		db, err := sql.Open(name, dsn)
		if err != nil {
			res.Harness = err.Error()
			return
		}
		xidOf := func(b int) string {
			if plan.SameXid {
				return "10.0.0.7:8091:9001"
			}
			return fmt.Sprintf("10.0.0.7:8091:%d", 9001+b)
		}
		branchOf := func(b int) int64 { return int64(7001 + b) }
		hook.Reset(plan.Faults)
		var recs []*c06Rec
		sharedCtx := map[string]context.Context{}
		deliver := func(r *c06Rec) {
			defer func() {
				if p := recover(); p != nil {
					r.err = fmt.Errorf("PANIC: %v", p)
					sim.Violate("C06", "no-panic", "panic-"+plan.Mode+"-"+r.op.Phase, "delivery %d (%s for branch %d) panicked: %v", r.id, r.op.Phase, r.op.Branch, p)
				}
				r.ret = int64(sim.Logf("RETURN op %d %s branch %d -> ran=%v err=%v", r.id, r.op.Phase, r.op.Branch, r.ran, r.err))
				r.finished = true
			}()
			ctx := tm.InitSeataContext(context.Background())
			if plan.SharedCtx && r.op.Phase == "prepare" && r.alone {
				// the tries of one global transaction run on the caller's context,
				// one after the other (TCCServiceProxy.Prepare sets the action
				// context and the fence phase on it for each)
				if sharedCtx[xidOf(r.op.Branch)] == nil {
					sharedCtx[xidOf(r.op.Branch)] = ctx
				}
				ctx = sharedCtx[xidOf(r.op.Branch)]
				sim.Probe("c06-try-on-shared-context")
			}
			tm.SetXID(ctx, xidOf(r.op.Branch))
			tm.SetTxName(ctx, "c06")
			switch r.op.Phase {
			case "prepare":
				tm.SetFencePhase(ctx, enum.FencePhasePrepare)
			case "commit":
				tm.SetFencePhase(ctx, enum.FencePhaseCommit)
			case "rollback":
				tm.SetFencePhase(ctx, enum.FencePhaseRollback)
			}
			tm.SetBusinessActionContext(ctx, &tm.BusinessActionContext{Xid: xidOf(r.op.Branch), BranchId: branchOf(r.op.Branch), ActionName: "act"})
			effect := func(tx *sql.Tx) error {
				r.ran = true
				_, e := tx.Exec("INSERT INTO effects (op, xid, branch_id, phase) VALUES (?, ?, ?, ?)", r.id, xidOf(r.op.Branch), branchOf(r.op.Branch), r.op.Phase)
				return e
			}
			tx, err := db.BeginTx(ctx, nil)
			if err != nil {
				r.err = err
				return
			}
			if plan.Mode == "api" {
				err = fence.WithFence(ctx, tx, func() error { return effect(tx) })
			} else {
				err = effect(tx)
			}
			if err != nil {
				r.err = err
				if rerr := tx.Rollback(); rerr != nil {
					sim.Note("rollback of delivery %d: %v", r.id, rerr)
				}
				return
			}
			r.err = tx.Commit()
		}
		id := 0
		for _, st := range plan.Steps {
			var cur []*c06Rec
			for _, op := range st.Ops {
				id++
				r := &c06Rec{id: id, op: op, jstart: srv.JournalLen()}
				recs = append(recs, r)
				cur = append(cur, r)
			}
			if len(cur) == 1 {
				cur[0].alone = true
			}
			if len(cur) == 2 && cur[0].op.Branch == cur[1].op.Branch {
				cur[0].raced, cur[1].raced = true, true
			}
			for _, r := range cur {
				r := r
				r.call = int64(sim.Logf("INVOKE op %d %s branch %d (xid %s branch id %d)", r.id, r.op.Phase, r.op.Branch, xidOf(r.op.Branch), branchOf(r.op.Branch)))
				sim.Go(fmt.Sprintf("c06-op-%03d", r.id), func() { deliver(r) })
			}
			t0 := sim.Now()
			sim.Run(func() bool {
				all := true
				for _, r := range cur {
					if !r.finished {
						all = false
					}
				}
				return all || sim.Now()-t0 > 300*time.Second
			})
			stuck := false
			for _, r := range cur {
				if !r.finished {
					stuck = true
					sim.Violate("C06", "termination", "delivery-stuck-"+plan.Mode+"-"+r.op.Phase, "delivery %d (%s for branch %d) did not return within 300 simulated seconds", r.id, r.op.Phase, r.op.Branch)
				}
			}
			if stuck {
				break
			}
		}
		// ---- observations from the database model ----
		j := srv.JournalFrom(0)
		snap := srv.Snapshot()
		applied := map[int]bool{}
		effects := map[string]map[string]int{} // branch key -> phase -> committed effect rows
		for _, row := range snap["shop.effects"] {
			opid, _ := argInt(row[1])
			applied[int(opid)] = true
			k := fmt.Sprintf("%v|%v", row[2], row[3])
			if effects[k] == nil {
				effects[k] = map[string]int{}
			}
			effects[k][fmt.Sprint(row[4])]++
		}
		// which deliveries met an injected fault: by time window (deliveries of one step overlap only with each other)
		for _, r := range recs {
			r.applied = applied[r.id]
			for _, e := range j {
				if strings.Contains(e.Err, "injected") && int64(e.Seq) > r.call && (r.ret == 0 || int64(e.Seq) < r.ret) {
					r.faulted = true
				}
			}
		}
		// which delivery committed which fence write (by time window, branch and the status a phase writes)
		for _, e := range j {
			for _, wr := range e.Writes {
				if wr.Table != "shop.tcc_fence_log" || wr.After == nil {
					continue
				}
				st, _ := argInt(wr.After[3])
				var best *c06Rec
				for _, r := range recs {
					if r.wrote != 0 || fmt.Sprint(wr.After[0]) != xidOf(r.op.Branch) || fmt.Sprint(wr.After[1]) != fmt.Sprint(branchOf(r.op.Branch)) {
						continue
					}
					if int64(e.Seq) < r.call || (r.ret != 0 && int64(e.Seq) > r.ret) {
						continue
					}
					okPhase := (st == fsTried && r.op.Phase == "prepare") || (st == fsCommitted && r.op.Phase == "commit") || ((st == fsRollbacked || st == fsSuspended) && r.op.Phase == "rollback")
					if !okPhase {
						continue
					}
					// two racing deliveries of the same phase: the write belongs to the
					// one whose effect fits it (statuses 1-3 come with the effect, the
					// suspension without), then to the one that returned success
					score := func(x *c06Rec) int {
						n := 0
						if x.applied == (st != fsSuspended) {
							n += 2
						}
						if x.err == nil {
							n++
						}
						return n
					}
					if best == nil || score(r) > score(best) {
						best = r
					}
				}
				if best != nil {
					best.wrote = int(st)
				} else {
					sim.Violate("C06", "fence-state-machine", "unattributed-fence-write-"+plan.Mode, "the fence record of (%v, %v) was set to status %d by %q, which no delivery of a matching phase explains", wr.After[0], wr.After[1], st, e.SQL)
				}
			}
		}
		// a branch one of whose deliveries met an injected fault is judged under
		// "-faults" classes (the fence driver's dual transaction is a known
		// finding there); the other branches of the same run are not
		runCls := plan.Mode
		if len(plan.Faults) > 0 {
			runCls += "-faults"
		}
		faultedKey := map[string]bool{}
		faultedBranch := map[int]bool{}
		for _, r := range recs {
			if r.faulted {
				faultedKey[fmt.Sprintf("%v|%v", xidOf(r.op.Branch), branchOf(r.op.Branch))] = true
				faultedBranch[r.op.Branch] = true
			}
		}
		clsOf := func(faulted bool) string {
			if faulted {
				return plan.Mode + "-faults"
			}
			return plan.Mode
		}
		cls := runCls
		// (2) fence status and effects agree
		status := map[string]int{}
		for _, row := range snap["shop.tcc_fence_log"] {
			st, _ := argInt(row[3])
			status[fmt.Sprintf("%v|%v", row[0], row[1])] = int(st)
		}
		keys := map[string]bool{}
		for k := range status {
			keys[k] = true
		}
		for k := range effects {
			keys[k] = true
		}
		for _, k := range keysOf(keys) {
			e := effects[k]
			if e == nil {
				e = map[string]int{}
			}
			st, has := status[k]
			desc := fmt.Sprintf("branch %s: fence status %d (row present: %v), committed effects try=%d confirm=%d cancel=%d", k, st, has, e["prepare"], e["commit"], e["rollback"])
			cls := clsOf(faultedKey[k])
			switch {
			case e["prepare"] > 1 || e["commit"] > 1 || e["rollback"] > 1:
				ph := "prepare"
				if e["commit"] > 1 {
					ph = "commit"
				} else if e["rollback"] > 1 {
					ph = "rollback"
				}
				sim.Violate("C06", "at-most-once", "effect-applied-twice-"+cls+"-"+ph, "%s", desc)
			case e["commit"] > 0 && e["rollback"] > 0:
				sim.Violate("C06", "confirm-xor-cancel", "confirm-and-cancel-"+cls, "%s", desc)
			case (e["commit"] > 0 || e["rollback"] > 0) && e["prepare"] == 0:
				sim.Violate("C06", "empty-phase-two", "phase-two-effect-without-try-"+cls, "%s", desc)
			default:
				want := -1
				switch {
				case !has:
					if e["prepare"]+e["commit"]+e["rollback"] > 0 {
						sim.Violate("C06", "atomic-with-business", "effect-without-fence-record-"+cls, "%s", desc)
					}
				case st == int(enum.StatusTried):
					want = 0
					if e["prepare"] != 1 || e["commit"]+e["rollback"] != 0 {
						sim.Violate("C06", "atomic-with-business", "fence-tried-effects-differ-"+cls, "%s", desc)
					}
				case st == int(enum.StatusCommitted):
					if e["prepare"] != 1 || e["commit"] != 1 {
						sim.Violate("C06", "atomic-with-business", "fence-committed-effects-differ-"+cls, "%s", desc)
					}
				case st == int(enum.StatusRollbacked):
					if e["prepare"] != 1 || e["rollback"] != 1 {
						sim.Violate("C06", "atomic-with-business", "fence-rollbacked-effects-differ-"+cls, "%s", desc)
					}
				case st == int(enum.StatusSuspended):
					if e["prepare"]+e["commit"]+e["rollback"] != 0 {
						sim.Violate("C06", "suspension", "effect-despite-suspension-"+cls, "%s", desc)
					}
				}
				_ = want
			}
		}
		// (1) linearizability of every branch's history against the fence state machine
		byBranch := map[int][]porcupine.Operation{}
		for _, r := range recs {
			if !r.finished {
				continue
			}
			byBranch[r.op.Branch] = append(byBranch[r.op.Branch], porcupine.Operation{
				ClientId: r.id, Input: c06In{phase: r.op.Phase}, Call: r.call,
				Output: c06Out{applied: r.applied, err: r.err != nil, wrote: r.wrote, faulted: r.faulted, raced: r.raced}, Return: r.ret,
			})
		}
		var bs []int
		for b := range byBranch {
			bs = append(bs, b)
		}
		sort.Ints(bs)
		for _, b := range bs {
			ops := byBranch[b]
			cls := clsOf(faultedBranch[b])
			r := porcupine.CheckOperationsTimeout(c06Model, ops, 20*time.Second)
			switch r {
			case porcupine.Illegal:
				var hs []string
				first := ""
				for _, o := range ops {
					hs = append(hs, fmt.Sprintf("[%d..%d] %s", o.Call, o.Return, c06Model.DescribeOperation(o.Input, o.Output)))
				}
				// name the class after the first operation no prefix explains (sequential scan)
				state := c06Model.Init()
				sort.Slice(ops, func(i, j int) bool { return ops[i].Call < ops[j].Call })
				for _, o := range ops {
					ok, ns := c06Model.Step(state, o.Input, o.Output)
					if !ok {
						out := o.Output.(c06Out)
						first = fmt.Sprintf("%s-in-state-%d-wrote=%d-applied=%v-err=%v", o.Input.(c06In).phase, state.(int), out.wrote, out.applied, out.err)
						break
					}
					state = ns
				}
				if first == "" {
					first = "racing"
				}
				sim.Violate("C06", "fence-state-machine", "not-linearizable-"+cls+"-"+first, "branch %d: the history is not explained by the fence state machine (none->tried->committed|rollbacked, none->suspended; every effect at most once; try refused after suspension): %s", b, strings.Join(hs, "; "))
			case porcupine.Unknown:
				res.Inconcl++
			}
		}
		if n := srv.OpenTxnCount(); n > 0 {
			sim.Violate("C06", "atomic-with-business", "transaction-left-open-"+cls, "%d local transaction(s) still open after every delivery returned", n)
		}
		for _, st := range plan.Steps {
			var ps []string
			for _, op := range st.Ops {
				ps = append(ps, op.Phase)
			}
			sim.State("!c06 " + cls + " " + strings.Join(ps, "||"))
		}
		res.Episodes = len(recs)
		plan.Tape = tape.Rec
		if len(res.Samples) < 1 {
			res.Samples = append(res.Samples, map[string]any{"plan": plan})
		}
		finishResult(res, sim)
	})
	res.Plan, _ = json.Marshal(plan)
	res.Components = map[string]string{
		"pkg/rm/tcc/fence (WithFence/DoFence, handler, dao, sql, fence driver conn/tx), pkg/tm context": "real",
		"database/sql pool":                  "real third-party code",
		"MySQL server + go-sql-driver/mysql": "model (simdb)",
		"coordinator, network":               "not involved (deliveries are made by the harness with the context the TCC resource manager builds)",
	}
	return res
}

func init() { engines["C06"] = runC06 }
