// Package simnet is the simulated network between the real seata-go client
// and the coordinator model. Session implements dubbo-getty's Session
// interface and replicates, line for line, the contract of getty 1.5.0 that
// the client relies on (WritePkg -> Writer.Write -> bytes; inbound bytes ->
// handleTCPPackage loop -> Reader.Read -> task pool -> OnMessage;
// OnOpen/OnError/OnClose as getty fires them; reconnect).
package simnet

import (
	"errors"
	"fmt"
	"net"
	"runtime"
	"sync/atomic"
	"time"

	getty "github.com/apache/dubbo-getty"
	gxsync "github.com/dubbogo/gost/sync"

	"verif/simkit"
	"verif/simtc"
)

var ErrSessionClosed = errors.New("session Already Closed")

// WriteFault makes the n-th WritePkg (1-based, counted per Net over frames
// whose body code matches; Code 0 = any) fail with a write error.
type WriteFault struct {
	Code int `json:"code"`
	Nth  int `json:"nth"`
}

// Config of the simulated link.
type Config struct {
	WriteFaults []WriteFault `json:"write_faults,omitempty"`
	// FragmentPct: probability (percent) that an inbound delivery is cut at a
	// random position instead of delivering everything available.
	FragmentPct int `json:"fragment_pct"`
	// Reconnect: reopen a session after a close, ReconnectAfter later.
	Reconnect      bool          `json:"reconnect"`
	ReconnectAfter time.Duration `json:"reconnect_after"`
	// GettyOrder: reconnect in the order dubbo-getty 1.5.0 does it. A session
	// that ends calls client.reConnect() from inside session.stop(): when the
	// application closes a live session, the successor is dialled and its
	// OnOpen runs on the caller's goroutine, inside Close(); when the peer
	// closes (or a read fails), the read goroutine dials until the server is
	// back (ReconnectAfter), runs OnOpen of the successor, and only then
	// OnError / OnClose of the old session. Without it: OnError / OnClose
	// first, the successor ReconnectAfter later.
	GettyOrder bool          `json:"getty_order,omitempty"`
	Heartbeat  time.Duration `json:"heartbeat"` // 0 = no OnCron
	MaxMsgLen  int           `json:"max_msg_len"`
	// ParkWrites makes the return of WritePkg a scheduling point of its own.
	ParkWrites bool `json:"park_writes"`
}

// FrameSink receives client->coordinator frames.
type FrameSink interface {
	OnFrame(sess int, f *simtc.Frame)
	SessionOpened(sess int)
}

type Net struct {
	Sim      *simkit.Sim
	Cfg      Config
	Sink     FrameSink
	Reader   getty.Reader
	Writer   getty.Writer
	Listener getty.EventListener
	Pool     gxsync.GenericTaskPool

	mu       simkit.QuietMutex
	sessions []*Session
	writes   map[int]int
	// OnUndecodable is called when a client frame cannot be decoded by the
	// independent codec.
	OnUndecodable func(sess int, raw []byte, err error)
	// OnSpin is called when the receive loop makes no progress.
	OnSpin func(sess int, detail string)
	// OnDispatch is called for every package handed to OnMessage.
	OnDispatch func(sess int, pkg interface{}, consumed int)
	// WriteHook, when set, is consulted for every WritePkg (body code of the
	// frame); a non-nil error is returned to the client as a write error.
	WriteHook func(sess int, code int) error
	// WriteHookFrame: the same with the decoded frame (not called when
	// undecodable; Body is nil for heart-beats)
	WriteHookFrame func(sess int, f *simtc.Frame) error
	SpinLimit      int
	// InlineRead: dispatch all buffered packages back to back (C13).
	InlineRead bool
}

func New(sim *simkit.Sim, cfg Config, sink FrameSink, rw getty.ReadWriter, l getty.EventListener) *Net {
	return &Net{Sim: sim, Cfg: cfg, Sink: sink, Reader: rw, Writer: rw, Listener: l,
		Pool: gxsync.NewTaskPoolSimple(0), writes: map[int]int{}, SpinLimit: 64}
}

func (n *Net) Session(id int) *Session {
	n.mu.Lock()
	defer n.mu.Unlock()
	if id < 0 || id >= len(n.sessions) {
		return nil
	}
	return n.sessions[id]
}

func (n *Net) Sessions() []*Session {
	n.mu.Lock()
	defer n.mu.Unlock()
	return append([]*Session(nil), n.sessions...)
}

// Open creates a session to the coordinator at addr and fires OnOpen, as
// getty's client does after a successful dial. Scheduler goroutine only.
func (n *Net) Open(addr string) *Session {
	n.mu.Lock()
	s := &Session{id: len(n.sessions), net: n, remote: addr, local: fmt.Sprintf("10.1.1.1:%d", 40000+len(n.sessions)), attrs: map[interface{}]interface{}{}}
	n.sessions = append(n.sessions, s)
	n.mu.Unlock()
	n.Sim.Logf("NET open s%d -> %s", s.id, addr)
	n.Sink.SessionOpened(s.id)
	if err := n.Listener.OnOpen(s); err != nil {
		s.closeInternal("onopen-error", false)
		return s
	}
	if n.Cfg.Heartbeat > 0 {
		n.scheduleCron(s)
	}
	return s
}

func (n *Net) scheduleCron(s *Session) {
	n.Sim.Post(fmt.Sprintf("net-cron|%03d", s.id), n.Cfg.Heartbeat, "", func() {
		if s.IsClosed() {
			return
		}
		n.Sim.Probe("heartbeat-sent")
		go n.Listener.OnCron(s) // getty runs OnCron on the session's own goroutine
		n.scheduleCron(s)
	})
}

// ---- simtc.Net ------------------------------------------------------------

func (n *Net) IsOpen(sess int) bool {
	s := n.Session(sess)
	return s != nil && !s.IsClosed()
}

func (n *Net) ToClient(sess int, b []byte) {
	s := n.Session(sess)
	if s == nil || s.IsClosed() {
		return
	}
	s.mu.Lock()
	s.wire = append(s.wire, b...)
	s.mu.Unlock()
	n.postDeliver(s)
}

func (n *Net) postDeliver(s *Session) {
	n.Sim.Post(fmt.Sprintf("net-in|%03d", s.id), 0, "", func() { n.deliver(s) })
}

func (n *Net) CloseFromServer(sess int) {
	s := n.Session(sess)
	if s == nil {
		return
	}
	n.Sim.Fault("net-close-from-server")
	s.closeInternal("peer-closed", true)
}

// InjectBytes puts raw bytes on the TC->client stream (garbage, hand-made frames).
func (n *Net) InjectBytes(sess int, b []byte) { n.ToClient(sess, b) }

// deliver moves a chunk of wire bytes into the session's packet buffer and
// runs the replica of getty's handleTCPPackage inner loop.
func (n *Net) deliver(s *Session) {
	if s.IsClosed() {
		return
	}
	s.mu.Lock()
	avail := len(s.wire)
	s.mu.Unlock()
	if avail == 0 {
		return
	}
	k := avail
	if n.Cfg.FragmentPct > 0 && avail > 1 && n.Sim.Tape.Choose(100) < n.Cfg.FragmentPct {
		k = 1 + n.Sim.Tape.Choose(avail-1)
		n.Sim.Fault("net-fragment")
	}
	n.DeliverChunk(s, k)
}

// DeliverChunk delivers exactly k bytes (C13 drives this directly).
func (n *Net) DeliverChunk(s *Session, k int) {
	s.mu.Lock()
	if k > len(s.wire) {
		k = len(s.wire)
	}
	chunk := s.wire[:k]
	s.wire = append([]byte(nil), s.wire[k:]...)
	s.pkt = append(s.pkt, chunk...)
	more := len(s.wire) > 0
	s.mu.Unlock()
	n.Sim.Logf("NET deliver s%d %dB", s.id, k)
	n.readLoop(s)
	if more && !s.IsClosed() {
		n.postDeliver(s)
	}
}

// readLoop is the replica of the inner loop of getty's handleTCPPackage.
// With InlineRead it runs exactly like getty (all buffered packages
// dispatched back to back); otherwise it handles one package per scheduler
// event so that the handler goroutine of package k is quiescent before
// package k+1 is dispatched (the order is then decided by the tape, not by
// the Go runtime).
func (n *Net) readLoop(s *Session) {
	spins := 0
	for {
		if s.IsClosed() {
			return
		}
		s.mu.Lock()
		buf := s.pkt
		s.mu.Unlock()
		if len(buf) <= 0 {
			return
		}
		pkg, pkgLen, err := n.safeRead(s, buf)
		if err == nil && n.Cfg.MaxMsgLen > 0 && pkgLen > n.Cfg.MaxMsgLen {
			err = fmt.Errorf("pkgLen %d > session max message len %d", pkgLen, n.Cfg.MaxMsgLen)
		}
		if err != nil {
			n.Sim.Logf("NET s%d read error: %v", s.id, err)
			n.Sim.Probe("net-read-error")
			s.readErr = err
			s.closeInternal("read-error", true)
			return
		}
		if pkg == nil {
			return
		}
		if n.OnDispatch != nil {
			n.OnDispatch(s.id, pkg, pkgLen)
		}
		s.addTask(pkg)
		s.mu.Lock()
		if pkgLen > len(s.pkt) {
			pkgLen = len(s.pkt)
		}
		if pkgLen < 0 {
			pkgLen = 0
		}
		s.pkt = s.pkt[pkgLen:]
		s.mu.Unlock()
		if pkgLen == 0 {
			spins++
			if spins >= n.SpinLimit {
				if n.OnSpin != nil {
					n.OnSpin(s.id, fmt.Sprintf("receive loop made no progress %d times with %d buffered bytes", spins, len(buf)))
				}
				s.closeInternal("spin", true)
				return
			}
		} else {
			spins = 0
			if !n.InlineRead {
				s.mu.Lock()
				rest := len(s.pkt)
				s.mu.Unlock()
				if rest > 0 {
					n.Sim.Post(fmt.Sprintf("net-rd|%03d", s.id), 0, "", func() { n.readLoop(s) })
				}
				return
			}
		}
	}
}

// panicError marks a panic escaping Reader.Read (getty's handlePackage
// recovers it and the session dies).
type panicError struct{ v interface{} }

func (p panicError) Error() string { return fmt.Sprintf("panic in Read: %v", p.v) }

func (n *Net) safeRead(s *Session, buf []byte) (pkg interface{}, l int, err error) {
	defer func() {
		if r := recover(); r != nil {
			stack := make([]byte, 4096)
			stack = stack[:runtime.Stack(stack, false)]
			n.Sim.Logf("NET s%d Read panicked: %v", s.id, r)
			s.readPanic = fmt.Sprintf("%v", r)
			err = panicError{r}
			pkg = nil
		}
	}()
	// the reader sees a private copy like gxbytes.Buffer.Bytes() of the real loop
	cp := append([]byte(nil), buf...)
	return n.Reader.Read(s, cp)
}

// ---- Session --------------------------------------------------------------

type Session struct {
	id     int
	net    *Net
	remote string
	local  string
	closed atomic.Bool

	mu        simkit.QuietMutex
	attrs     map[interface{}]interface{}
	wire      []byte // sent by the coordinator, not yet delivered
	pkt       []byte // delivered, not yet consumed by the reader (pktBuf)
	out       [][]byte
	outSeq    int
	readErr   error
	readPanic string
	onClosed  bool
	name      string
	ReadPkgs  int
}

func (s *Session) SimID() int        { return s.id }
func (s *Session) ReadPanic() string { return s.readPanic }
func (s *Session) ReadErr() error    { return s.readErr }
func (s *Session) Buffered() int     { s.mu.Lock(); defer s.mu.Unlock(); return len(s.pkt) }

func (s *Session) addTask(pkg interface{}) {
	f := func() {
		if s.IsClosed() {
			return
		}
		s.net.Listener.OnMessage(s, pkg)
		s.mu.Lock()
		s.ReadPkgs++
		s.mu.Unlock()
	}
	if s.net.Pool != nil {
		s.net.Pool.AddTaskAlways(f)
		return
	}
	f()
}

// closeInternal marks the session closed and fires the listener callbacks
// the way getty's handlePackage exit does (OnError if a read error occurred,
// then OnClose, exactly once), then schedules a reconnect if configured.
func (s *Session) closeInternal(why string, fromPeer bool) {
	if !s.closed.CompareAndSwap(false, true) {
		return
	}
	n := s.net
	n.Sim.Logf("NET close s%d (%s)", s.id, why)
	fire := func() {
		s.mu.Lock()
		if s.onClosed {
			s.mu.Unlock()
			return
		}
		s.onClosed = true
		err := s.readErr
		s.mu.Unlock()
		if err != nil {
			n.Listener.OnError(s, err)
		}
		n.Listener.OnClose(s)
	}
	after := n.Cfg.ReconnectAfter
	if after <= 0 {
		after = 10 * time.Second
	}
	if n.Cfg.Reconnect && n.Cfg.GettyOrder {
		if why == "client-close" {
			// reConnect() inside Close(), on the caller's goroutine
			n.Sim.Probe("net-reconnect-inside-close")
			n.Open(s.remote)
			n.Sim.Post(fmt.Sprintf("net-onclose|%03d", s.id), 0, "", fire)
			return
		}
		n.Sim.Probe("net-successor-opened-before-onclose")
		n.Sim.Post(fmt.Sprintf("net-reconnect|%03d", s.id), after, "", func() {
			n.Open(s.remote)
			fire()
		})
		return
	}
	n.Sim.Post(fmt.Sprintf("net-onclose|%03d", s.id), 0, "", func() {
		fire()
		if n.Cfg.Reconnect {
			n.Sim.Post(fmt.Sprintf("net-reconnect|%03d", s.id), after, "", func() { n.Open(s.remote) })
		}
	})
}

// getty.Session ---------------------------------------------------------------

func (s *Session) ID() uint32                           { return uint32(s.id) }
func (s *Session) SetCompressType(getty.CompressType)   {}
func (s *Session) LocalAddr() string                    { return s.local }
func (s *Session) RemoteAddr() string                   { return s.remote }
func (s *Session) IncReadPkgNum()                       {}
func (s *Session) IncWritePkgNum()                      {}
func (s *Session) UpdateActive()                        {}
func (s *Session) GetActive() time.Time                 { return time.Now() }
func (s *Session) ReadTimeout() time.Duration           { return time.Second }
func (s *Session) SetReadTimeout(time.Duration)         {}
func (s *Session) WriteTimeout() time.Duration          { return time.Second }
func (s *Session) SetWriteTimeout(time.Duration)        {}
func (s *Session) Send(interface{}) (int, error)        { return 0, errors.New("simnet: Send unsupported") }
func (s *Session) CloseConn(int)                        { s.Close() }
func (s *Session) SetSession(getty.Session)             {}
func (s *Session) Reset()                               {}
func (s *Session) Conn() net.Conn                       { return nil }
func (s *Session) Stat() string                         { return fmt.Sprintf("simsession{%d %s}", s.id, s.remote) }
func (s *Session) IsClosed() bool                       { return s.closed.Load() }
func (s *Session) EndPoint() getty.EndPoint             { return endpoint{s.net} }
func (s *Session) SetMaxMsgLen(int)                     {}
func (s *Session) SetName(n string)                     { s.name = n }
func (s *Session) SetEventListener(getty.EventListener) {}
func (s *Session) SetPkgHandler(getty.ReadWriter)       {}
func (s *Session) SetReader(getty.Reader)               {}
func (s *Session) SetWriter(getty.Writer)               {}
func (s *Session) SetCronPeriod(int)                    {}
func (s *Session) SetWaitTime(time.Duration)            {}
func (s *Session) GetAttribute(k interface{}) interface{} {
	s.mu.Lock()
	defer s.mu.Unlock()
	return s.attrs[k]
}
func (s *Session) SetAttribute(k interface{}, v interface{}) {
	s.mu.Lock()
	s.attrs[k] = v
	s.mu.Unlock()
}
func (s *Session) RemoveAttribute(k interface{}) {
	s.mu.Lock()
	delete(s.attrs, k)
	s.mu.Unlock()
}
func (s *Session) WriteBytes(b []byte) (int, error) {
	return 0, errors.New("simnet: WriteBytes unsupported")
}
func (s *Session) WriteBytesArray(...[]byte) (int, error) {
	return 0, errors.New("simnet: WriteBytesArray unsupported")
}

func (s *Session) Close() { s.closeInternal("client-close", false) }

// WritePkg encodes pkg with the client's real Writer and puts the bytes on
// the client->coordinator stream (delivered to the coordinator, in order, by
// a scheduler event).
func (s *Session) WritePkg(pkg interface{}, timeout time.Duration) (total int, sent int, err error) {
	if pkg == nil {
		return 0, 0, fmt.Errorf("@pkg is nil")
	}
	if s.IsClosed() {
		return 0, 0, ErrSessionClosed
	}
	defer func() {
		if r := recover(); r != nil {
			err = fmt.Errorf("[session.WritePkg] panic session %s: err=%v", s.Stat(), r)
			s.net.Sim.Probe("net-write-panic")
		}
	}()
	b, err := s.net.Writer.Write(s, pkg)
	if err != nil {
		return len(b), 0, err
	}
	n := s.net
	// decode with the independent codec to learn the body code (for fault
	// matching); undecodable frames are reported when delivered.
	code := 0
	var frame *simtc.Frame
	if f, _, derr := simtc.DecodeFrame(b); derr == nil && f != nil {
		frame = f // (heart-beats have no body)
		if f.Body != nil {
			code = f.Body.Code
		}
	}
	n.mu.Lock()
	n.writes[0]++
	n.writes[code]++
	w0, wc := n.writes[0], n.writes[code]
	n.mu.Unlock()
	if n.WriteHook != nil {
		if herr := n.WriteHook(s.id, code); herr != nil {
			n.Sim.Fault("net-write-error")
			n.Sim.Logf("NET s%d write error injected (code %d)", s.id, code)
			return len(b), 0, herr
		}
	}
	if n.WriteHookFrame != nil && frame != nil {
		if herr := n.WriteHookFrame(s.id, frame); herr != nil {
			n.Sim.Fault("net-write-error")
			n.Sim.Logf("NET s%d write error injected (code %d)", s.id, code)
			return len(b), 0, herr
		}
	}
	for _, wf := range n.Cfg.WriteFaults {
		if (wf.Code == 0 && wf.Nth == w0) || (wf.Code != 0 && wf.Code == code && wf.Nth == wc) {
			n.Sim.Fault("net-write-error")
			n.Sim.Logf("NET s%d write error injected (code %d)", s.id, code)
			return len(b), 0, fmt.Errorf("simnet: injected write error")
		}
	}
	s.mu.Lock()
	s.out = append(s.out, b)
	s.mu.Unlock()
	n.Sim.Post(fmt.Sprintf("net-out|%03d", s.id), 0, "", func() { n.deliverOut(s) })
	if n.Cfg.ParkWrites {
		// the bytes are with the kernel; the writing goroutine gets the CPU back
		// whenever the scheduler says so (possibly after the reply was processed)
		n.Sim.Park(fmt.Sprintf("net-wret|%03d|%06d", s.id, w0), "")
	}
	return len(b), len(b), nil
}

func (n *Net) deliverOut(s *Session) {
	s.mu.Lock()
	if len(s.out) == 0 {
		s.mu.Unlock()
		return
	}
	b := s.out[0]
	s.out = s.out[1:]
	s.mu.Unlock()
	f, _, err := simtc.DecodeFrame(b)
	if err != nil || f == nil {
		n.Sim.Logf("NET s%d client frame undecodable: %v", s.id, err)
		if n.OnUndecodable != nil {
			n.OnUndecodable(s.id, b, err)
		}
		if f == nil {
			return
		}
	}
	n.Sink.OnFrame(s.id, f)
}

type endpoint struct{ n *Net }

func (e endpoint) ID() getty.EndPointID                  { return 1 }
func (e endpoint) EndPointType() getty.EndPointType      { return getty.TCP_CLIENT }
func (e endpoint) RunEventLoop(getty.NewSessionCallback) {}
func (e endpoint) IsClosed() bool                        { return false }
func (e endpoint) Close()                                {}
func (e endpoint) GetTaskPool() gxsync.GenericTaskPool   { return e.n.Pool }
