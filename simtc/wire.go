// Package simtc is the simulated Seata transaction coordinator: an independent
// table-driven codec for the Seata v1 wire format (written from the protocol
// layout, NOT from seata-go's pkg/protocol/codec) and a small executable
// reference model of the coordinator.
package simtc

import (
	"encoding/binary"
	"errors"
	"fmt"
	"sort"
	"strings"
)

// Frame message types.
const (
	FrameRequest   = 0
	FrameResponse  = 1
	FrameOneway    = 2
	FrameHeartReq  = 3
	FrameHeartResp = 4
)

// Body type codes (Seata MessageType).
const (
	TGlobalBegin          = 1
	TGlobalBeginResult    = 2
	TBranchCommit         = 3
	TBranchCommitResult   = 4
	TBranchRollback       = 5
	TBranchRollbackResult = 6
	TGlobalCommit         = 7
	TGlobalCommitResult   = 8
	TGlobalRollback       = 9
	TGlobalRollbackResult = 10
	TBranchRegister       = 11
	TBranchRegisterResult = 12
	TBranchReport         = 13
	TBranchReportResult   = 14
	TGlobalStatus         = 15
	TGlobalStatusResult   = 16
	TGlobalReport         = 17
	TGlobalReportResult   = 18
	TGlobalLockQuery      = 21
	TGlobalLockQueryRes   = 22
	TRegTM                = 101
	TRegTMResult          = 102
	TRegRM                = 103
	TRegRMResult          = 104
	THeartbeat            = 120
)

// Branch types / statuses / global statuses (Seata enums, by ordinal).
const (
	BranchAT   = 0
	BranchTCC  = 1
	BranchSAGA = 2
	BranchXA   = 3

	BSUnknown                      = 0
	BSRegistered                   = 1
	BSPhaseOneDone                 = 2
	BSPhaseOneFailed               = 3
	BSPhaseOneTimeout              = 4
	BSPhaseTwoCommitted            = 5
	BSPhaseTwoCommitFailedRetry    = 6
	BSPhaseTwoCommitFailedNoRetry  = 7
	BSPhaseTwoRollbacked           = 8
	BSPhaseTwoRollbackFailedRetry  = 9
	BSPhaseTwoRollbackFailedNoRetr = 10

	GSUnknown        = 0
	GSBegin          = 1
	GSCommitting     = 2
	GSCommitRetrying = 3
	GSRollbacking    = 4
	GSRollbackRetry  = 5
	GSTimeoutRB      = 6
	GSTimeoutRBRetry = 7
	GSAsyncCommit    = 8
	GSCommitted      = 9
	GSCommitFailed   = 10
	GSRollbacked     = 11
	GSRollbackFailed = 12
	GSTimeoutRBed    = 13
	GSTimeoutRBFail  = 14
	GSFinished       = 15

	ResultFailed  = 0
	ResultSuccess = 1
)

// Frame is a decoded Seata v1 frame.
type Frame struct {
	Type       byte
	Codec      byte
	Compressor byte
	ID         int32
	Head       [][2]string // ordered key/value pairs
	Body       *Msg        // nil for heartbeat frames
	RawBody    []byte
}

// Msg is a decoded body. One flat struct for all message kinds; unused fields
// are zero.
type Msg struct {
	Code int

	// requests
	TimeoutMs  int32
	Name       string
	Xid        string
	Extra      string
	BranchType byte
	ResourceID string
	LockKey    string
	AppData    []byte
	BranchID   int64
	Status     byte
	Version    string
	AppID      string
	TxGroup    string

	// responses
	Result       byte
	Message      string
	ExCode       byte
	GlobalStatus byte
	Lockable     bool
	Identified   bool
}

func (m *Msg) String() string {
	switch m.Code {
	case TGlobalBegin:
		return fmt.Sprintf("GlobalBegin{name=%q timeout=%d}", m.Name, m.TimeoutMs)
	case TGlobalCommit:
		return fmt.Sprintf("GlobalCommit{xid=%q}", m.Xid)
	case TGlobalRollback:
		return fmt.Sprintf("GlobalRollback{xid=%q}", m.Xid)
	case TBranchRegister:
		// the client builds the lock key text from a Go map: canonical order in the log
		lk := strings.Split(strings.TrimSuffix(m.LockKey, ";"), ";")
		sort.Strings(lk)
		return fmt.Sprintf("BranchRegister{xid=%q type=%d res=%q lock=%q app=%q}", m.Xid, m.BranchType, m.ResourceID, strings.Join(lk, ";"), m.AppData)
	case TBranchReport:
		return fmt.Sprintf("BranchReport{xid=%q branch=%d status=%d res=%q type=%d}", m.Xid, m.BranchID, m.Status, m.ResourceID, m.BranchType)
	case TGlobalLockQuery:
		return fmt.Sprintf("LockQuery{xid=%q type=%d res=%q lock=%q}", m.Xid, m.BranchType, m.ResourceID, m.LockKey)
	case TBranchCommitResult:
		return fmt.Sprintf("BranchCommitResult{rc=%d xid=%q branch=%d status=%d}", m.Result, m.Xid, m.BranchID, m.Status)
	case TBranchRollbackResult:
		return fmt.Sprintf("BranchRollbackResult{rc=%d xid=%q branch=%d status=%d}", m.Result, m.Xid, m.BranchID, m.Status)
	case TRegTM:
		return fmt.Sprintf("RegTM{app=%q group=%q}", m.AppID, m.TxGroup)
	case TRegRM:
		return fmt.Sprintf("RegRM{app=%q group=%q res=%q}", m.AppID, m.TxGroup, m.ResourceID)
	}
	return fmt.Sprintf("Msg{code=%d xid=%q branch=%d rc=%d}", m.Code, m.Xid, m.BranchID, m.Result)
}

var ErrShort = errors.New("short frame")

// ---- reader / writer -------------------------------------------------------

type rd struct {
	b   []byte
	p   int
	bad bool
}

func (r *rd) u8() byte {
	if r.p+1 > len(r.b) {
		r.bad = true
		return 0
	}
	v := r.b[r.p]
	r.p++
	return v
}
func (r *rd) u16() uint16 {
	if r.p+2 > len(r.b) {
		r.bad = true
		r.p = len(r.b)
		return 0
	}
	v := binary.BigEndian.Uint16(r.b[r.p:])
	r.p += 2
	return v
}
func (r *rd) u32() uint32 {
	if r.p+4 > len(r.b) {
		r.bad = true
		r.p = len(r.b)
		return 0
	}
	v := binary.BigEndian.Uint32(r.b[r.p:])
	r.p += 4
	return v
}
func (r *rd) u64() uint64 {
	if r.p+8 > len(r.b) {
		r.bad = true
		r.p = len(r.b)
		return 0
	}
	v := binary.BigEndian.Uint64(r.b[r.p:])
	r.p += 8
	return v
}
func (r *rd) bytes(n int) []byte {
	if n < 0 || r.p+n > len(r.b) {
		r.bad = true
		r.p = len(r.b)
		return nil
	}
	v := r.b[r.p : r.p+n]
	r.p += n
	return v
}
func (r *rd) s16() string {
	n := int(int16(r.u16()))
	if n <= 0 {
		return ""
	}
	return string(r.bytes(n))
}
func (r *rd) s32() []byte {
	n := int(int32(r.u32()))
	if n <= 0 {
		return nil
	}
	return append([]byte(nil), r.bytes(n)...)
}

type wr struct{ b []byte }

func (w *wr) u8(v byte)    { w.b = append(w.b, v) }
func (w *wr) u16(v uint16) { w.b = binary.BigEndian.AppendUint16(w.b, v) }
func (w *wr) u32(v uint32) { w.b = binary.BigEndian.AppendUint32(w.b, v) }
func (w *wr) u64(v uint64) { w.b = binary.BigEndian.AppendUint64(w.b, v) }
func (w *wr) s16(s string) {
	if len(s) > 0x7fff {
		s = s[:0x7fff]
	}
	w.u16(uint16(len(s)))
	w.b = append(w.b, s...)
}
func (w *wr) s32(s []byte) { w.u32(uint32(len(s))); w.b = append(w.b, s...) }

// ---- frame ----------------------------------------------------------------

// EncodeFrame renders a frame in Seata v1 layout.
func EncodeFrame(f *Frame) []byte {
	var head wr
	for _, kv := range f.Head {
		head.u16(uint16(len(kv[0])))
		head.b = append(head.b, kv[0]...)
		head.u16(uint16(len(kv[1])))
		head.b = append(head.b, kv[1]...)
	}
	var body []byte
	if f.RawBody != nil {
		body = f.RawBody
	} else if f.Body != nil {
		body = EncodeBody(f.Body)
	}
	headLen := 16 + len(head.b)
	full := headLen + len(body)
	var w wr
	w.u8(0xda)
	w.u8(0xda)
	w.u8(1)
	w.u32(uint32(full))
	w.u16(uint16(headLen))
	w.u8(f.Type)
	w.u8(f.Codec)
	w.u8(f.Compressor)
	w.u32(uint32(f.ID))
	w.b = append(w.b, head.b...)
	w.b = append(w.b, body...)
	return w.b
}

// DecodeFrame decodes one frame from the start of b. Returns the frame and the
// number of bytes consumed; ErrShort if b does not hold a complete frame.
func DecodeFrame(b []byte) (*Frame, int, error) {
	if len(b) < 16 {
		return nil, 0, ErrShort
	}
	if b[0] != 0xda || b[1] != 0xda {
		return nil, 0, fmt.Errorf("bad magic %02x%02x", b[0], b[1])
	}
	full := int(binary.BigEndian.Uint32(b[3:]))
	headLen := int(binary.BigEndian.Uint16(b[7:]))
	if full < 16 || headLen < 16 || headLen > full {
		return nil, 0, fmt.Errorf("bad lengths full=%d head=%d", full, headLen)
	}
	if len(b) < full {
		return nil, 0, ErrShort
	}
	f := &Frame{Type: b[9], Codec: b[10], Compressor: b[11], ID: int32(binary.BigEndian.Uint32(b[12:]))}
	r := &rd{b: b[16:headLen]}
	for r.p < len(r.b) && !r.bad {
		kl := int(r.u16())
		k := string(r.bytes(kl))
		vl := int(r.u16())
		v := string(r.bytes(vl))
		f.Head = append(f.Head, [2]string{k, v})
	}
	if r.bad {
		return nil, 0, fmt.Errorf("bad head map")
	}
	body := b[headLen:full]
	f.RawBody = append([]byte(nil), body...)
	if f.Type != FrameHeartReq && f.Type != FrameHeartResp && len(body) > 0 {
		m, err := DecodeBody(body)
		if err != nil {
			return f, full, err
		}
		f.Body = m
	}
	return f, full, nil
}

// ---- bodies ---------------------------------------------------------------

func encResult(w *wr, m *Msg) {
	w.u8(m.Result)
	if m.Result == ResultFailed {
		w.s16(m.Message)
	}
}
func encTx(w *wr, m *Msg) { encResult(w, m); w.u8(m.ExCode) }

func decResult(r *rd, m *Msg) {
	m.Result = r.u8()
	if m.Result == ResultFailed {
		m.Message = r.s16()
	}
}
func decTx(r *rd, m *Msg) { decResult(r, m); m.ExCode = r.u8() }

// EncodeBody renders a message body (type code + fields).
func EncodeBody(m *Msg) []byte {
	w := &wr{}
	w.u16(uint16(m.Code))
	switch m.Code {
	case TGlobalBegin:
		w.u32(uint32(m.TimeoutMs))
		w.s16(m.Name)
	case TGlobalBeginResult:
		encTx(w, m)
		w.s16(m.Xid)
		w.s16(m.Extra)
	case TGlobalCommit, TGlobalRollback, TGlobalStatus:
		w.s16(m.Xid)
		w.s16(m.Extra)
	case TGlobalCommitResult, TGlobalRollbackResult, TGlobalStatusResult, TGlobalReportResult:
		encTx(w, m)
		w.u8(m.GlobalStatus)
	case TBranchRegister, TGlobalLockQuery:
		w.s16(m.Xid)
		w.u8(m.BranchType)
		w.s16(m.ResourceID)
		w.s32([]byte(m.LockKey))
		w.s32(m.AppData)
	case TBranchRegisterResult:
		encTx(w, m)
		w.u64(uint64(m.BranchID))
	case TBranchReport:
		w.s16(m.Xid)
		w.u64(uint64(m.BranchID))
		w.u8(m.Status)
		w.s16(m.ResourceID)
		w.s32(m.AppData)
		w.u8(m.BranchType)
	case TBranchReportResult:
		encTx(w, m)
	case TGlobalLockQueryRes:
		encTx(w, m)
		if m.Lockable {
			w.u16(1)
		} else {
			w.u16(0)
		}
	case TBranchCommit, TBranchRollback:
		w.s16(m.Xid)
		w.u64(uint64(m.BranchID))
		w.u8(m.BranchType)
		w.s16(m.ResourceID)
		w.s32(m.AppData)
	case TBranchCommitResult, TBranchRollbackResult:
		encTx(w, m)
		w.s16(m.Xid)
		w.u64(uint64(m.BranchID))
		w.u8(m.Status)
	case TRegTM:
		w.s16(m.Version)
		w.s16(m.AppID)
		w.s16(m.TxGroup)
		w.s16(m.Extra)
	case TRegRM:
		w.s16(m.Version)
		w.s16(m.AppID)
		w.s16(m.TxGroup)
		w.s16(m.Extra)
		w.s32([]byte(m.ResourceID))
	case TRegTMResult, TRegRMResult:
		if m.Identified {
			w.u8(1)
		} else {
			w.u8(0)
		}
		w.s16(m.Version)
	default:
		panic(fmt.Sprintf("simtc: cannot encode code %d", m.Code))
	}
	return w.b
}

// DecodeBody parses a message body.
func DecodeBody(b []byte) (*Msg, error) {
	r := &rd{b: b}
	m := &Msg{Code: int(int16(r.u16()))}
	switch m.Code {
	case TGlobalBegin:
		m.TimeoutMs = int32(r.u32())
		m.Name = r.s16()
	case TGlobalBeginResult:
		decTx(r, m)
		m.Xid = r.s16()
		m.Extra = r.s16()
	case TGlobalCommit, TGlobalRollback, TGlobalStatus:
		m.Xid = r.s16()
		m.Extra = r.s16()
	case TGlobalCommitResult, TGlobalRollbackResult, TGlobalStatusResult, TGlobalReportResult:
		decTx(r, m)
		m.GlobalStatus = r.u8()
	case TBranchRegister, TGlobalLockQuery:
		m.Xid = r.s16()
		m.BranchType = r.u8()
		m.ResourceID = r.s16()
		m.LockKey = string(r.s32())
		m.AppData = r.s32()
	case TBranchRegisterResult:
		decTx(r, m)
		m.BranchID = int64(r.u64())
	case TBranchReport:
		m.Xid = r.s16()
		m.BranchID = int64(r.u64())
		m.Status = r.u8()
		m.ResourceID = r.s16()
		m.AppData = r.s32()
		m.BranchType = r.u8()
	case TBranchReportResult:
		decTx(r, m)
	case TGlobalLockQueryRes:
		decTx(r, m)
		m.Lockable = r.u16() == 1
	case TBranchCommit, TBranchRollback:
		m.Xid = r.s16()
		m.BranchID = int64(r.u64())
		m.BranchType = r.u8()
		m.ResourceID = r.s16()
		m.AppData = r.s32()
	case TBranchCommitResult, TBranchRollbackResult:
		decTx(r, m)
		m.Xid = r.s16()
		m.BranchID = int64(r.u64())
		m.Status = r.u8()
	case TRegTM:
		m.Version = r.s16()
		m.AppID = r.s16()
		m.TxGroup = r.s16()
		m.Extra = r.s16()
	case TRegRM:
		m.Version = r.s16()
		m.AppID = r.s16()
		m.TxGroup = r.s16()
		m.Extra = r.s16()
		m.ResourceID = string(r.s32())
	case TRegTMResult, TRegRMResult:
		m.Identified = r.u8() == 1
		m.Version = r.s16()
	default:
		return m, fmt.Errorf("unknown body code %d", m.Code)
	}
	if r.bad {
		return m, fmt.Errorf("body of code %d truncated", m.Code)
	}
	if r.p != len(b) {
		return m, fmt.Errorf("body of code %d has %d trailing bytes", m.Code, len(b)-r.p)
	}
	return m, nil
}

// ResultCodeFor maps a request code to its response code.
func ResultCodeFor(req int) int {
	switch req {
	case TGlobalBegin, TGlobalCommit, TGlobalRollback, TBranchRegister, TBranchReport, TGlobalStatus, TGlobalReport, TGlobalLockQuery, TRegTM, TRegRM, TBranchCommit, TBranchRollback:
		return req + 1
	}
	return 0
}
