package simtc

import (
	"fmt"
	"sort"
	"strings"
	"time"

	"verif/simkit"
)

// Net is what the coordinator model needs from the simulated network.
type Net interface {
	// ToClient puts bytes on the TC->client stream of a session.
	ToClient(sess int, b []byte)
	// CloseFromServer closes the session from the coordinator side.
	CloseFromServer(sess int)
	IsOpen(sess int) bool
}

// Rule perturbs the coordinator's handling of chosen requests.
type Rule struct {
	Code   int    `json:"code"`   // request body code the rule applies to
	Nth    int    `json:"nth"`    // 1-based occurrence of that code (0 = every)
	Action string `json:"action"` // fail | silent | late | dup | close | failmsg | lockconflict
	Msg    string `json:"msg,omitempty"`
	// Status (branch report only): the rule applies to, and Nth counts, only
	// requests with this branch status
	Status     byte `json:"status,omitempty"`
	statusBase int
}

const (
	ActFail     = "fail"     // answer with failure result code
	// ActFailNoCode: failure result code, exception code Unknown (0): what a
	// coordinator answers when handling the request threw an unexpected error
	ActFailNoCode = "fail-nocode"
	ActSilent   = "silent"   // never answer
	ActLate     = "late"     // answer after the client's RPC timeout
	ActSlow     = "slow"     // answer normally, 5 s later (within the RPC timeout)
	ActDup      = "dup"      // answer twice
	ActClose    = "close"    // close the session instead of answering
	ActConflict = "conflict" // branch register / lock query: lock conflict
	// ActRollbackNow (branch register): grant the branch, then roll the global
	// transaction back at once (as the coordinator's timeout check would)
	ActRollbackNow = "rollback-now"
)

type Branch struct {
	ID         int64
	Xid        string
	Type       byte
	Resource   string
	LockKey    string
	Keys       []string
	AppData    []byte
	Status     byte // last reported / phase-two status
	RegSeq     uint64
	P2Requests int
	P2Answers  []byte // statuses answered, in order
	Done       bool
}

type Global struct {
	Xid      string
	Name     string
	Status   byte
	Timeout  int32
	Branches []*Branch
	BeginSeq uint64
	EndSeq   uint64 // event sequence number at which the global transaction ended (locks released)
	Sess     int
	// request log per xid, in arrival order: "begin","commit","rollback"
	Requests []string
}

// Rec is one frame seen or sent by the coordinator.
type Rec struct {
	Seq  uint64
	In   bool
	Sess int
	F    *Frame
	At   time.Duration
}

type sessState struct {
	resources map[string]bool
	tm        bool
	regRM     int
	regTM     int
}

type pendingP2 struct {
	b       *Branch
	commit  bool
	attempt int
	sentAt  time.Duration
	done    func(status byte, answered bool)
	msgID   int32
	sess    int
}

// TC is the coordinator reference model.
type TC struct {
	Sim  *simkit.Sim
	Net  Net
	Addr string

	nextXid    int64
	nextBranch int64
	nextMsgID  int32

	Globals      map[string]*Global
	Order        []string          // xids in begin order
	Locks        map[string]string // resource^table^pk -> xid
	Log          []Rec
	Rules        []Rule
	counts       map[int]int
	statusCounts map[[2]int]int
	sess         map[int]*sessState
	pending      map[int32]*pendingP2

	// Hook lets an engine take over a request entirely (return true = handled).
	Hook func(sess int, f *Frame) bool
	// OnBranchAnswer is called for every phase-two answer decoded.
	OnBranchAnswer func(sess int, f *Frame)

	RPCTimeout    time.Duration // the client's timeout, used by "late"
	P2Timeout     time.Duration
	P2MaxAttempts int
	P2RetryEvery  time.Duration
	// AutoP2 = drive phase two after GlobalCommit/GlobalRollback as the real TC does.
	AutoP2 bool
	// Latencies to draw reply delays from.
	Lat []time.Duration
	// BranchIDBase lets a run use large branch ids.
	Unparsed int
}

func New(sim *simkit.Sim, net Net, addr string) *TC {
	return &TC{
		Sim: sim, Net: net, Addr: addr,
		nextXid: 1000, nextBranch: 7000, nextMsgID: 500000,
		Globals: map[string]*Global{}, Locks: map[string]string{},
		counts: map[int]int{}, sess: map[int]*sessState{}, pending: map[int32]*pendingP2{},
		RPCTimeout: 20 * time.Second, P2Timeout: 20 * time.Second, P2MaxAttempts: 5, P2RetryEvery: time.Second,
		AutoP2: true,
		Lat:    []time.Duration{0, 0, 137 * time.Microsecond, 1003 * time.Microsecond, 17011 * time.Microsecond, 203007 * time.Microsecond},
	}
}

func (tc *TC) SetBranchIDBase(b int64) { tc.nextBranch = b }
func (tc *TC) SetMsgIDBase(b int32)    { tc.nextMsgID = b }

func (tc *TC) SessionOpened(sess int) { tc.sess[sess] = &sessState{resources: map[string]bool{}} }

func (tc *TC) SessionResources(sess int) []string {
	st := tc.sess[sess]
	if st == nil {
		return nil
	}
	var r []string
	for k := range st.resources {
		r = append(r, k)
	}
	sort.Strings(r)
	return r
}
func (tc *TC) SessionIsTM(sess int) bool { st := tc.sess[sess]; return st != nil && st.tm }
func (tc *TC) SessionRegCounts(sess int) (tm, rm int) {
	st := tc.sess[sess]
	if st == nil {
		return 0, 0
	}
	return st.regTM, st.regRM
}

// CountOf reports how many requests with the given body code were handled so far.
func (tc *TC) CountOf(code int) int { return tc.counts[code] }

// StartXidsAt makes the coordinator number its global transactions from n+1
// (a long-running server: the numbers a client meets are arbitrary).
func (tc *TC) StartXidsAt(n int64) { tc.nextXid = n }

func (tc *TC) delay() time.Duration {
	return tc.Lat[tc.Sim.Tape.Choose(len(tc.Lat))]
}

func (tc *TC) record(in bool, sess int, f *Frame) uint64 {
	dir := "TC<-"
	if !in {
		dir = "TC->"
	}
	body := "heartbeat"
	if f.Body != nil {
		body = f.Body.String()
	} else if f.Type != FrameHeartReq && f.Type != FrameHeartResp {
		body = fmt.Sprintf("undecodable(%d bytes)", len(f.RawBody))
	}
	seq := tc.Sim.Logf("%s s%d type=%d %s", dir, sess, f.Type, body)
	tc.Log = append(tc.Log, Rec{Seq: seq, In: in, Sess: sess, F: f, At: tc.Sim.Now()})
	return seq
}

func (tc *TC) send(sess int, f *Frame) {
	if !tc.Net.IsOpen(sess) {
		tc.Sim.Probe("tc-reply-to-closed-session")
		return
	}
	tc.record(false, sess, f)
	tc.Net.ToClient(sess, EncodeFrame(f))
}

// reply schedules a response frame after a drawn latency.
func (tc *TC) reply(sess int, req *Frame, m *Msg, extraDelay time.Duration) {
	f := &Frame{Type: FrameResponse, Codec: req.Codec, Compressor: 0, ID: req.ID, Body: m}
	d := tc.delay() + extraDelay
	tc.Sim.Post(fmt.Sprintf("tc-reply|%d|%010d", sess, uint32(req.ID)), d, "", func() { tc.send(sess, f) })
}

func (tc *TC) rule(code int) *Rule { return tc.ruleFor(code, nil) }

// ruleFor finds the rule for a request. A rule with a Status only counts (and
// matches) requests carrying that status (branch reports: phase-one done vs failed).
func (tc *TC) ruleFor(code int, m *Msg) *Rule {
	tc.counts[code]++
	n := tc.counts[code]
	if m != nil && m.Status != 0 {
		if tc.statusCounts == nil {
			tc.statusCounts = map[[2]int]int{}
		}
		tc.statusCounts[[2]int{code, int(m.Status)}]++
	}
	for i := range tc.Rules {
		r := &tc.Rules[i]
		if r.Code != code {
			continue
		}
		if r.Status != 0 {
			if m == nil || m.Status != r.Status {
				continue
			}
			sn := tc.statusCounts[[2]int{code, int(m.Status)}] - r.statusBase
			if r.Nth == 0 || r.Nth == sn {
				return r
			}
			continue
		}
		if r.Nth == 0 || r.Nth == n {
			return r
		}
	}
	return nil
}

// StatusCountOf reports how many requests of code carried status so far.
func (tc *TC) StatusCountOf(code int, status byte) int {
	return tc.statusCounts[[2]int{code, int(status)}]
}

// ArmStatusRule makes a rule with a Status count from now on.
func (tc *TC) ArmStatusRule(r Rule) Rule {
	r.statusBase = tc.StatusCountOf(r.Code, r.Status)
	return r
}

// ParseLockKeys splits an AT lock key string into "table:pk" row keys the way
// the coordinator does.
func ParseLockKeys(resource, lockKey string) []string {
	var out []string
	for _, part := range strings.Split(lockKey, ";") {
		if part == "" {
			continue
		}
		i := strings.Index(part, ":")
		if i < 0 {
			continue
		}
		table := part[:i]
		for _, pk := range strings.Split(part[i+1:], ",") {
			if pk == "" {
				continue
			}
			out = append(out, resource+"^"+table+"^"+pk)
		}
	}
	return out
}

func (tc *TC) conflict(xid string, keys []string) bool {
	for _, k := range keys {
		if o, ok := tc.Locks[k]; ok && o != xid {
			return true
		}
	}
	return false
}

func (tc *TC) releaseLocks(xid string) {
	if g := tc.Globals[xid]; g != nil && g.EndSeq == 0 {
		g.EndSeq = tc.Sim.Seq()
	}
	for k, o := range tc.Locks {
		if o == xid {
			delete(tc.Locks, k)
		}
	}
}

// OnFrame handles one frame received from the client. Called by the
// scheduler goroutine only.
func (tc *TC) OnFrame(sess int, f *Frame) {
	tc.record(true, sess, f)
	if f.Type == FrameHeartReq {
		tc.Sim.Post(fmt.Sprintf("tc-reply|%d|hb%010d", sess, uint32(f.ID)), tc.delay(), "", func() {
			tc.send(sess, &Frame{Type: FrameHeartResp, Codec: f.Codec, ID: f.ID})
		})
		return
	}
	if f.Body == nil {
		tc.Unparsed++
		return
	}
	if tc.Hook != nil && tc.Hook(sess, f) {
		return
	}
	m := f.Body
	st := tc.sess[sess]
	if st == nil {
		st = &sessState{resources: map[string]bool{}}
		tc.sess[sess] = st
	}
	switch m.Code {
	case TBranchCommitResult, TBranchRollbackResult:
		tc.onBranchAnswer(sess, f)
		return
	}
	r := tc.ruleFor(m.Code, m)
	act := ""
	if r != nil {
		act = r.Action
		tc.Sim.Fault("tc-" + act)
	}
	switch act {
	case ActSilent:
		return
	case ActClose:
		tc.Net.CloseFromServer(sess)
		return
	}
	var extra time.Duration
	if act == ActLate {
		extra = tc.RPCTimeout + 1500*time.Millisecond
	}
	if act == ActSlow {
		extra = 5 * time.Second
	}
	resp := &Msg{Code: ResultCodeFor(m.Code), Result: ResultSuccess}
	fail := func(msg string, ex byte) {
		resp.Result = ResultFailed
		resp.Message = msg
		resp.ExCode = ex
	}
	if act == ActFailNoCode {
		act = ActFail
		fail = func(msg string, ex byte) {
			resp.Result = ResultFailed
			resp.Message = msg
			resp.ExCode = 0
		}
	}
	switch m.Code {
	case TRegTM:
		st.tm = true
		st.regTM++
		resp.Identified = true
		resp.Version = "1.5.2"
	case TRegRM:
		st.regRM++
		for _, r := range strings.Split(m.ResourceID, ",") {
			if r != "" {
				st.resources[r] = true
			}
		}
		resp.Identified = true
		resp.Version = "1.5.2"
	case TGlobalBegin:
		if act == ActFail {
			fail(ruleMsg(r, "begin refused"), 1)
			break
		}
		tc.nextXid++
		xid := fmt.Sprintf("%s:%d", tc.Addr, tc.nextXid)
		g := &Global{Xid: xid, Name: m.Name, Status: GSBegin, Timeout: m.TimeoutMs, Sess: sess, Requests: []string{"begin"}}
		g.BeginSeq = tc.Sim.Seq()
		tc.Globals[xid] = g
		tc.Order = append(tc.Order, xid)
		resp.Xid = xid
	case TGlobalCommit, TGlobalRollback:
		commit := m.Code == TGlobalCommit
		g := tc.Globals[m.Xid]
		if g != nil {
			if commit {
				g.Requests = append(g.Requests, "commit")
			} else {
				g.Requests = append(g.Requests, "rollback")
			}
		}
		if act == ActFail {
			fail(ruleMsg(r, "end refused"), 1)
			resp.GlobalStatus = GSUnknown
			break
		}
		if g == nil {
			fail("unknown xid", 2)
			resp.GlobalStatus = GSFinished
			break
		}
		if commit {
			switch g.Status {
			case GSBegin:
				g.Status = GSCommitting
				resp.GlobalStatus = GSCommitted
				// like the Seata server (closeAndClean): the global locks of a
				// committing transaction are released at the commit decision, phase
				// two (undo-log deletion) runs asynchronously afterwards
				tc.releaseLocks(g.Xid)
				if tc.AutoP2 {
					tc.drivePhaseTwo(g, true, nil)
				} else {
					g.Status = GSCommitted
					tc.releaseLocks(g.Xid)
				}
			default:
				resp.GlobalStatus = g.Status
			}
		} else {
			switch g.Status {
			case GSBegin:
				g.Status = GSRollbacking
				if tc.AutoP2 {
					sessC, fC, respC, extraC := sess, f, resp, extra
					tc.drivePhaseTwo(g, false, func(ok bool) {
						if ok {
							respC.GlobalStatus = GSRollbacked
						} else {
							respC.GlobalStatus = GSRollbackRetry
						}
						tc.reply(sessC, fC, respC, extraC)
						if act == ActDup {
							tc.reply(sessC, fC, respC, extraC)
						}
					})
					return
				}
				g.Status = GSRollbacked
				tc.releaseLocks(g.Xid)
				resp.GlobalStatus = GSRollbacked
			default:
				resp.GlobalStatus = g.Status
			}
		}
	case TBranchRegister:
		g := tc.Globals[m.Xid]
		if act == ActFail {
			fail(ruleMsg(r, "register refused"), 3)
			break
		}
		if g == nil || g.Status != GSBegin {
			fail("global transaction not active", 5)
			break
		}
		keys := []string(nil)
		if m.BranchType == BranchAT {
			keys = ParseLockKeys(m.ResourceID, m.LockKey)
		}
		if act == ActConflict || tc.conflict(m.Xid, keys) {
			fail("LockKeyConflict", 6)
			tc.Sim.Probe("tc-lock-conflict")
			break
		}
		tc.nextBranch++
		b := &Branch{ID: tc.nextBranch, Xid: m.Xid, Type: m.BranchType, Resource: m.ResourceID, LockKey: m.LockKey, Keys: keys, AppData: m.AppData, Status: BSRegistered}
		b.RegSeq = tc.Sim.Seq()
		for _, k := range keys {
			tc.Locks[k] = m.Xid
		}
		g.Branches = append(g.Branches, b)
		resp.BranchID = b.ID
		if act == ActRollbackNow {
			tc.reply(sess, f, resp, extra)
			g.Status = GSRollbacking
			g.Requests = append(g.Requests, "timeout-rollback")
			// rule message "x2" / "x3": the rollback is delivered that many times
			// in a row (each after the previous answer), as a coordinator does
			// whose view of the answers got lost
			extraDeliveries := 0
			if r != nil && strings.HasPrefix(r.Msg, "x") {
				fmt.Sscanf(r.Msg, "x%d", &extraDeliveries)
				extraDeliveries--
			}
			var again func(ok bool)
			again = func(ok bool) {
				if extraDeliveries <= 0 {
					return
				}
				extraDeliveries--
				for i := len(g.Branches) - 1; i >= 0; i-- {
					b := g.Branches[i]
					last := i == 0
					tc.SendBranchEnd(b, false, b.AppData, -1, func(status byte, answered bool) {
						if last {
							again(true)
						}
					})
				}
			}
			tc.drivePhaseTwo(g, false, again)
			return
		}
	case TBranchReport:
		if act == ActFail {
			fail(ruleMsg(r, "report refused"), 4)
			break
		}
		g := tc.Globals[m.Xid]
		var b *Branch
		if g != nil {
			for _, x := range g.Branches {
				if x.ID == m.BranchID {
					b = x
				}
			}
		}
		if b == nil {
			fail("unknown branch", 7)
			break
		}
		b.Status = m.Status
	case TGlobalLockQuery:
		if act == ActFail {
			fail(ruleMsg(r, "lock query refused"), 8)
			break
		}
		keys := ParseLockKeys(m.ResourceID, m.LockKey)
		resp.Lockable = act != ActConflict && !tc.conflict(m.Xid, keys)
		if !resp.Lockable {
			tc.Sim.Probe("tc-lockquery-conflict")
		}
	default:
		tc.Unparsed++
		return
	}
	tc.reply(sess, f, resp, extra)
	if act == ActDup {
		tc.reply(sess, f, resp, extra)
	}
}

func ruleMsg(r *Rule, def string) string {
	if r != nil && r.Msg != "" {
		return r.Msg
	}
	return def
}

// ---- phase two -------------------------------------------------------------

func (tc *TC) sessionFor(resource string) int {
	var ids []int
	for id, st := range tc.sess {
		if st.resources[resource] && tc.Net.IsOpen(id) {
			ids = append(ids, id)
		}
	}
	if len(ids) == 0 {
		return -1
	}
	sort.Ints(ids)
	return ids[len(ids)-1]
}

// SendBranchEnd sends one BranchCommit/BranchRollback request for b and calls
// done with the answered status (answered=false on timeout / no session).
func (tc *TC) SendBranchEnd(b *Branch, commit bool, appData []byte, sessOverride int, done func(status byte, answered bool)) int32 {
	sess := sessOverride
	if sess < 0 {
		sess = tc.sessionFor(b.Resource)
	}
	if sess < 0 {
		tc.Sim.Probe("tc-p2-no-session")
		tc.Sim.Post(fmt.Sprintf("tc-p2wait|%d", b.ID), tc.P2RetryEvery, "", func() {
			if done != nil {
				done(0, false)
			}
		})
		return 0
	}
	code := TBranchRollback
	if commit {
		code = TBranchCommit
	}
	tc.nextMsgID++
	id := tc.nextMsgID
	m := &Msg{Code: code, Xid: b.Xid, BranchID: b.ID, BranchType: b.Type, ResourceID: b.Resource, AppData: appData}
	f := &Frame{Type: FrameRequest, Codec: 1, ID: id, Body: m}
	p := &pendingP2{b: b, commit: commit, done: done, msgID: id, sess: sess, sentAt: tc.Sim.Now()}
	tc.pending[id] = p
	b.P2Requests++
	tc.send(sess, f)
	tc.Sim.Post(fmt.Sprintf("tc-p2timeout|%010d", uint32(id)), tc.P2Timeout, "", func() {
		if q := tc.pending[id]; q != nil {
			delete(tc.pending, id)
			tc.Sim.Probe("tc-p2-timeout")
			if q.done != nil {
				q.done(0, false)
			}
		}
	})
	return id
}

func (tc *TC) onBranchAnswer(sess int, f *Frame) {
	if tc.OnBranchAnswer != nil {
		tc.OnBranchAnswer(sess, f)
	}
	p := tc.pending[f.ID]
	if p == nil {
		tc.Sim.Probe("tc-p2-unsolicited-answer")
		return
	}
	delete(tc.pending, f.ID)
	p.b.P2Answers = append(p.b.P2Answers, f.Body.Status)
	if p.done != nil {
		p.done(f.Body.Status, true)
	}
}

// PendingP2 reports the number of phase-two requests awaiting an answer.
func (tc *TC) PendingP2() int { return len(tc.pending) }

// drivePhaseTwo runs phase two for g like the real coordinator: commit =
// every branch in order (asynchronously from the TM's point of view),
// rollback = reverse registration order, synchronously.
func (tc *TC) drivePhaseTwo(g *Global, commit bool, finished func(ok bool)) {
	var list []*Branch
	for _, b := range g.Branches {
		if b.Status == BSPhaseOneFailed {
			continue
		}
		list = append(list, b)
	}
	if !commit {
		for i, j := 0, len(list)-1; i < j; i, j = i+1, j-1 {
			list[i], list[j] = list[j], list[i]
		}
	}
	allOK := true
	var step func(i, attempt int)
	step = func(i, attempt int) {
		if i >= len(list) {
			if allOK {
				if commit {
					g.Status = GSCommitted
				} else {
					g.Status = GSRollbacked
				}
				tc.releaseLocks(g.Xid)
			} else if commit {
				g.Status = GSCommitRetrying
				tc.releaseLocks(g.Xid)
			} else {
				g.Status = GSRollbackRetry
			}
			if finished != nil {
				finished(allOK)
			}
			return
		}
		b := list[i]
		tc.SendBranchEnd(b, commit, b.AppData, -1, func(status byte, answered bool) {
			okStatus := byte(BSPhaseTwoRollbacked)
			retry := byte(BSPhaseTwoRollbackFailedRetry)
			if commit {
				okStatus = BSPhaseTwoCommitted
				retry = BSPhaseTwoCommitFailedRetry
			}
			switch {
			case answered && status == okStatus:
				b.Status = status
				b.Done = true
				step(i+1, 0)
			case (!answered || status == retry) && attempt+1 < tc.P2MaxAttempts:
				tc.Sim.Probe("tc-p2-retry")
				tc.Sim.Post(fmt.Sprintf("tc-p2retry|%d", b.ID), tc.P2RetryEvery, "", func() { step(i, attempt+1) })
			default:
				if answered {
					b.Status = status
				}
				allOK = false
				step(i+1, 0)
			}
		})
	}
	if commit {
		// asynchronous from the initiator's point of view
		tc.Sim.Post("tc-p2start|"+g.Xid, tc.delay(), "", func() { step(0, 0) })
	} else {
		step(0, 0)
	}
}

// FindBranch looks a branch up by id.
func (tc *TC) FindBranch(id int64) *Branch {
	for _, xid := range tc.Order {
		for _, b := range tc.Globals[xid].Branches {
			if b.ID == id {
				return b
			}
		}
	}
	return nil
}
