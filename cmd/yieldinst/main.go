// yieldinst copies the client's source tree and inserts scheduling points
// (simyield.Point) before every mutex acquisition and after every release in
// its non-test Go files. The insertion keeps every statement on its line, so
// stack traces of the instrumented build name the lines of the original tree.
//
//	yieldinst <repo> <dst>
//
// Only the copy is changed. The instrumented copy is used by the C20 engine's
// "yield" mode: the simulator decides, from the run's seed, at which of these
// points a goroutine is delayed by a few simulated milliseconds, which opens
// the windows between "lock released" and "shared data used" that contain no
// blocking operation of their own.
package main

import (
	"fmt"
	"go/ast"
	"go/parser"
	"go/token"
	"io/fs"
	"os"
	"path/filepath"
	"sort"
	"strings"
)

const yieldPkg = `// Package simyield: scheduling points inserted by /verif/cmd/yieldinst.
package simyield

import "sync/atomic"

var hook atomic.Pointer[func(site string)]

// SetHook is called by the simulator; nil switches the points off.
func SetHook(f func(site string)) {
	if f == nil {
		hook.Store(nil)
		return
	}
	hook.Store(&f)
}

// Point is a scheduling point.
func Point(site string) {
	if h := hook.Load(); h != nil {
		(*h)(site)
	}
}

var hookM atomic.Pointer[func(site string, mu any)]

// SetHookM: like SetHook, for the points at mutex operations, which also hand
// over a pointer to the expression the method was called on.
func SetHookM(f func(site string, mu any)) {
	if f == nil {
		hookM.Store(nil)
		return
	}
	hookM.Store(&f)
}

// PointM is a scheduling point at a mutex operation.
func PointM(site string, mu any) {
	if h := hookM.Load(); h != nil {
		(*h)(site, mu)
		return
	}
	Point(site)
}
`

func main() {
	if len(os.Args) != 3 {
		fmt.Fprintln(os.Stderr, "usage: yieldinst <repo> <dst>")
		os.Exit(2)
	}
	src, dst := os.Args[1], os.Args[2]
	sites := 0
	err := filepath.WalkDir(src, func(p string, d fs.DirEntry, err error) error {
		if err != nil {
			return err
		}
		rel, _ := filepath.Rel(src, p)
		if d.IsDir() {
			if d.Name() == ".git" || d.Name() == "node_modules" {
				return filepath.SkipDir
			}
			return os.MkdirAll(filepath.Join(dst, rel), 0o755)
		}
		if !d.Type().IsRegular() {
			return nil
		}
		data, err := os.ReadFile(p)
		if err != nil {
			return err
		}
		if strings.HasSuffix(rel, ".go") && !strings.HasSuffix(rel, "_test.go") && strings.HasPrefix(rel, "pkg"+string(filepath.Separator)) {
			out, n, ierr := instrument(rel, data)
			if ierr != nil {
				return fmt.Errorf("%s: %v", rel, ierr)
			}
			data = out
			sites += n
		}
		return os.WriteFile(filepath.Join(dst, rel), data, 0o644)
	})
	if err == nil {
		dir := filepath.Join(dst, "pkg", "util", "simyield")
		if err = os.MkdirAll(dir, 0o755); err == nil {
			err = os.WriteFile(filepath.Join(dir, "simyield.go"), []byte(yieldPkg), 0o644)
		}
	}
	if err != nil {
		fmt.Fprintln(os.Stderr, "yieldinst:", err)
		os.Exit(2)
	}
	fmt.Printf("yieldinst: %d scheduling points\n", sites)
}

type ins struct {
	off  int
	text string
}

// syncOps: method names of mutexes, atomics and sync.Map. Other types have
// methods of these names too; a scheduling point there is harmless.
var syncOps = map[string]bool{
	"Lock": true, "RLock": true,
	"Inc": true, "Dec": true, "Add": true, "Sub": true, "Load": true, "Store": true, "Swap": true, "CAS": true, "CompareAndSwap": true,
	"LoadOrStore": true, "LoadAndDelete": true, "Delete": true, "Range": true,
}

// opIn returns the first synchronisation operation called in the expressions
// that belong to the statement itself (not to nested blocks or function
// literals).
func opIn(st ast.Stmt) string {
	var exprs []ast.Node
	switch x := st.(type) {
	case *ast.ExprStmt:
		exprs = append(exprs, x.X)
	case *ast.AssignStmt:
		for _, e := range x.Rhs {
			exprs = append(exprs, e)
		}
	case *ast.ReturnStmt:
		for _, e := range x.Results {
			exprs = append(exprs, e)
		}
	case *ast.IfStmt:
		if x.Init != nil {
			exprs = append(exprs, x.Init)
		}
		exprs = append(exprs, x.Cond)
	case *ast.SwitchStmt:
		if x.Init != nil {
			exprs = append(exprs, x.Init)
		}
		if x.Tag != nil {
			exprs = append(exprs, x.Tag)
		}
	case *ast.RangeStmt:
		exprs = append(exprs, x.X)
	case *ast.IncDecStmt, *ast.SendStmt:
		exprs = append(exprs, x)
	case *ast.DeclStmt:
		exprs = append(exprs, x)
	}
	found := ""
	for _, e := range exprs {
		ast.Inspect(e, func(n ast.Node) bool {
			if found != "" {
				return false
			}
			switch c := n.(type) {
			case *ast.FuncLit, *ast.BlockStmt:
				return false
			case *ast.CallExpr:
				if sel, ok := c.Fun.(*ast.SelectorExpr); ok && syncOps[sel.Sel.Name] {
					// atomic.AddInt32(&x, 1) style and method style alike
					found = sel.Sel.Name
					return false
				}
				if sel, ok := c.Fun.(*ast.SelectorExpr); ok {
					if id, ok := sel.X.(*ast.Ident); ok && id.Name == "atomic" {
						found = sel.Sel.Name
						return false
					}
				}
			}
			return true
		})
	}
	return found
}

func instrument(rel string, data []byte) ([]byte, int, error) {
	fset := token.NewFileSet()
	f, err := parser.ParseFile(fset, rel, data, parser.ParseComments)
	if err != nil {
		return nil, 0, err
	}
	if f.Name.Name == "simyield" {
		return data, 0, nil
	}
	var list []ins
	point := func(site, kind string) string {
		return fmt.Sprintf("simyield.Point(%q)", site+":"+kind)
	}
	pkgs := map[string]bool{}
	for _, im := range f.Imports {
		name := strings.Trim(im.Path.Value, `"`)
		if i := strings.LastIndex(name, "/"); i >= 0 {
			name = name[i+1:]
		}
		if im.Name != nil {
			name = im.Name.Name
		}
		pkgs[name] = true
	}
	// simple: an identifier or a chain of field selections over one (its
	// address can be taken); not a package-qualified name
	var simple func(e ast.Expr, top bool) bool
	simple = func(e ast.Expr, top bool) bool {
		switch x := e.(type) {
		case *ast.Ident:
			return !pkgs[x.Name] && x.Name != "_"
		case *ast.SelectorExpr:
			return simple(x.X, false)
		}
		return false
	}
	// pointM: a point at a mutex operation; hands over the address of the
	// expression the method is called on when that is a simple one
	pointM := func(site, kind string, recv ast.Expr) string {
		if !simple(recv, true) {
			return point(site, kind)
		}
		text := string(data[fset.Position(recv.Pos()).Offset:fset.Position(recv.End()).Offset])
		return fmt.Sprintf("simyield.PointM(%q, &%s)", site+":"+kind, text)
	}
	visit := func(stmts []ast.Stmt) {
		for _, s := range stmts {
			pos := fset.Position(s.Pos())
			site := fmt.Sprintf("%s:%d", filepath.ToSlash(rel), pos.Line)
			// mutex statements: before-lock / after-lock / after-unlock
			if es, ok := s.(*ast.ExprStmt); ok {
				if call, ok := es.X.(*ast.CallExpr); ok && len(call.Args) == 0 {
					if sel, ok := call.Fun.(*ast.SelectorExpr); ok {
						end := fset.Position(es.End()).Offset
						switch sel.Sel.Name {
						case "Lock":
							list = append(list, ins{pos.Offset, pointM(site, "before-lock", sel.X) + "; "})
							list = append(list, ins{end, "; " + pointM(site, "after-lock", sel.X)})
							continue
						case "RLock":
							list = append(list, ins{pos.Offset, pointM(site, "before-rlock", sel.X) + "; "})
							list = append(list, ins{end, "; " + pointM(site, "after-rlock", sel.X)})
							continue
						case "Unlock":
							list = append(list, ins{end, "; " + pointM(site, "after-unlock", sel.X)})
							continue
						case "RUnlock":
							list = append(list, ins{end, "; " + pointM(site, "after-runlock", sel.X)})
							continue
						}
					}
				}
			}
			// defer mu.Unlock(): defers run last-in first-out, so a point deferred
			// just before it runs just after the unlock
			if ds, ok := s.(*ast.DeferStmt); ok {
				if sel, ok := ds.Call.Fun.(*ast.SelectorExpr); ok && len(ds.Call.Args) == 0 && (sel.Sel.Name == "Unlock" || sel.Sel.Name == "RUnlock") {
					kind := "after-unlock"
					if sel.Sel.Name == "RUnlock" {
						kind = "after-runlock"
					}
					list = append(list, ins{pos.Offset, "defer " + pointM(site, kind, sel.X) + "; "})
				}
				continue
			}
			if _, ok := s.(*ast.GoStmt); ok {
				continue
			}
			if op := opIn(s); op != "" {
				list = append(list, ins{pos.Offset, point(site, "before-"+strings.ToLower(op)) + "; "})
			}
		}
	}
	ast.Inspect(f, func(n ast.Node) bool {
		switch b := n.(type) {
		case *ast.BlockStmt:
			visit(b.List)
		case *ast.CaseClause:
			visit(b.Body)
		case *ast.CommClause:
			visit(b.Body)
		}
		return true
	})
	if len(list) == 0 {
		return data, 0, nil
	}
	list = append(list, ins{fset.Position(f.Name.End()).Offset, `; import simyield "seata.apache.org/seata-go/pkg/util/simyield"`})
	sort.SliceStable(list, func(i, j int) bool { return list[i].off > list[j].off })
	out := append([]byte(nil), data...)
	for _, x := range list {
		out = append(out[:x.off], append([]byte(x.text), out[x.off:]...)...)
	}
	// the result must parse
	if _, err := parser.ParseFile(token.NewFileSet(), rel, out, 0); err != nil {
		return nil, 0, fmt.Errorf("instrumented file does not parse: %v", err)
	}
	return out, len(list) - 1, nil
}
