// yieldinst copies the client's source tree and inserts scheduling points
// (simyield.Point) before every mutex acquisition and after every release in
// its non-test Go files. The insertion keeps every statement on its line, so
// stack traces of the instrumented build name the lines of the original tree.
//
//	yieldinst <repo> <dst>
//
// Only the copy is changed. The instrumented copy is used by the C20 engine's
// "yield" mode: the simulator decides, from the run's seed, at which of these
// points a goroutine is delayed by a few simulated milliseconds, which opens
// the windows between "lock released" and "shared data used" that contain no
// blocking operation of their own.
package main

import (
	"fmt"
	"go/ast"
	"go/parser"
	"go/token"
	"io/fs"
	"os"
	"path/filepath"
	"sort"
	"strings"
)

const yieldPkg = `// Package simyield: scheduling points inserted by /verif/cmd/yieldinst.
package simyield

import "sync/atomic"

var hook atomic.Pointer[func(site string)]

// SetHook is called by the simulator; nil switches the points off.
func SetHook(f func(site string)) {
	if f == nil {
		hook.Store(nil)
		return
	}
	hook.Store(&f)
}

// Point is a scheduling point.
func Point(site string) {
	if h := hook.Load(); h != nil {
		(*h)(site)
	}
}
`

func main() {
	if len(os.Args) != 3 {
		fmt.Fprintln(os.Stderr, "usage: yieldinst <repo> <dst>")
		os.Exit(2)
	}
	src, dst := os.Args[1], os.Args[2]
	sites := 0
	err := filepath.WalkDir(src, func(p string, d fs.DirEntry, err error) error {
		if err != nil {
			return err
		}
		rel, _ := filepath.Rel(src, p)
		if d.IsDir() {
			if d.Name() == ".git" || d.Name() == "node_modules" {
				return filepath.SkipDir
			}
			return os.MkdirAll(filepath.Join(dst, rel), 0o755)
		}
		if !d.Type().IsRegular() {
			return nil
		}
		data, err := os.ReadFile(p)
		if err != nil {
			return err
		}
		if strings.HasSuffix(rel, ".go") && !strings.HasSuffix(rel, "_test.go") && strings.HasPrefix(rel, "pkg"+string(filepath.Separator)) {
			out, n, ierr := instrument(rel, data)
			if ierr != nil {
				return fmt.Errorf("%s: %v", rel, ierr)
			}
			data = out
			sites += n
		}
		return os.WriteFile(filepath.Join(dst, rel), data, 0o644)
	})
	if err == nil {
		dir := filepath.Join(dst, "pkg", "util", "simyield")
		if err = os.MkdirAll(dir, 0o755); err == nil {
			err = os.WriteFile(filepath.Join(dir, "simyield.go"), []byte(yieldPkg), 0o644)
		}
	}
	if err != nil {
		fmt.Fprintln(os.Stderr, "yieldinst:", err)
		os.Exit(2)
	}
	fmt.Printf("yieldinst: %d scheduling points\n", sites)
}

type ins struct {
	off  int
	text string
}

func instrument(rel string, data []byte) ([]byte, int, error) {
	fset := token.NewFileSet()
	f, err := parser.ParseFile(fset, rel, data, parser.ParseComments)
	if err != nil {
		return nil, 0, err
	}
	if f.Name.Name == "simyield" {
		return data, 0, nil
	}
	var list []ins
	visit := func(stmts []ast.Stmt) {
		for _, s := range stmts {
			es, ok := s.(*ast.ExprStmt)
			if !ok {
				continue
			}
			call, ok := es.X.(*ast.CallExpr)
			if !ok || len(call.Args) != 0 {
				continue
			}
			sel, ok := call.Fun.(*ast.SelectorExpr)
			if !ok {
				continue
			}
			pos := fset.Position(es.Pos())
			site := fmt.Sprintf("%s:%d", filepath.ToSlash(rel), pos.Line)
			switch sel.Sel.Name {
			case "Lock", "RLock":
				list = append(list, ins{pos.Offset, fmt.Sprintf("simyield.Point(%q); ", site+":before-"+strings.ToLower(sel.Sel.Name))})
			case "Unlock", "RUnlock":
				list = append(list, ins{fset.Position(es.End()).Offset, fmt.Sprintf("; simyield.Point(%q)", site+":after-"+strings.ToLower(sel.Sel.Name))})
			}
		}
	}
	ast.Inspect(f, func(n ast.Node) bool {
		switch b := n.(type) {
		case *ast.BlockStmt:
			visit(b.List)
		case *ast.CaseClause:
			visit(b.Body)
		case *ast.CommClause:
			visit(b.Body)
		}
		return true
	})
	if len(list) == 0 {
		return data, 0, nil
	}
	list = append(list, ins{fset.Position(f.Name.End()).Offset, `; import simyield "seata.apache.org/seata-go/pkg/util/simyield"`})
	sort.SliceStable(list, func(i, j int) bool { return list[i].off > list[j].off })
	out := append([]byte(nil), data...)
	for _, x := range list {
		out = append(out[:x.off], append([]byte(x.text), out[x.off:]...)...)
	}
	// the result must parse
	if _, err := parser.ParseFile(token.NewFileSet(), rel, out, 0); err != nil {
		return nil, 0, fmt.Errorf("instrumented file does not parse: %v", err)
	}
	return out, len(list) - 1, nil
}
