package main

import "time"

var commonAssume = []string{
	"the coordinator is a reference model (simtc) written from the Seata v1 protocol, not the Java server",
	"dubbo-getty's transport loops are replicated by simnet (Session stub), not executed",
	"gost's default timer wheel is replaced by std timers (fake clock) through a patched module copy",
	"Go map / sync.Map iteration order is not seedable; oracles are set-valued where it matters",
}

func init() {
	specs["C04"] = &PropSpec{Level: "exploration", QuickRuns: 320, ThorRuns: 4000, Wall: 120 * time.Second, MaxProcs: 2,
		Rule:   "episode = one tm.WithGlobalTx call with generated callback outcome x joined/launcher x retry counts x per-attempt coordinator script (ok/fail/write error/silent/close) x cancellation point; distinct = distinct (outcome, joined, begin script met, end script met, cancel, retry counts) tuples; non-trivial = at least one fault, cancel, non-nil outcome or participant role",
		Assume: commonAssume}
	specs["C13"] = &PropSpec{Level: "exploration", QuickRuns: 64, ThorRuns: 640, Wall: 300 * time.Second, MaxProcs: 2,
		Rule:   "evaluation = one (frame sequence, partition into reads) pair pushed through the getty receive-loop replica; frame sequences of 1-5 frames with generated head maps and bodies; partitions: every single cut position (30% of sequences), every pair of cut positions (thorough, 8%), random chunk sizes otherwise; distinct = (frames, stream length, garbage length, chunks) signatures; every evaluation is non-trivial (at least one cut) except whole-stream deliveries",
		Assume: commonAssume}
	specs["C14"] = &PropSpec{Level: "exploration", QuickRuns: 96, ThorRuns: 1200, Wall: 180 * time.Second, MaxProcs: 2,
		Rule:   "episode = 1-12 concurrent SendSyncRequest callers with content-unique requests; per caller the coordinator answers normally / slowly / twice / never / after the RPC timeout, optionally the session is lost with requests pending, then one fresh request; tape decides caller order, reply latencies, fragmentation; distinct = (caller count, action multiset, close time) signatures; non-trivial = more than one caller",
		Assume: append([]string{"packages of one session are handed to the listener one per scheduler event, so two handler goroutines never execute at the same time (their interleaving below statement level is not explored)"}, commonAssume...)}
	specs["C19"] = &PropSpec{Level: "exploration", QuickRuns: 150, ThorRuns: 1500, Wall: 180 * time.Second, MaxProcs: 2, Modes: []string{"select", "route", "reconnect"},
		Rule:   "mode select: histories of open/close(release)/close-only/busy operations interleaved with loadbalance.Select over all five policies (plus an unknown spelling) and generated xids, one evaluation per selection; mode route: three coordinator sessions, XID policy, requests through SendSyncRequest; mode reconnect: TM + 1-3 TCC resources, session lost idle / with the commit in flight / between phase one and two, once or repeatedly; non-trivial = a closed session exists at selection time, or any route/reconnect episode",
		Assume: commonAssume}
	specs["C07"] = &PropSpec{Level: "exploration", QuickRuns: 96, ThorRuns: 1200, Wall: 180 * time.Second, MaxProcs: 2,
		Rule:   "evaluation = one scope tree (depth <= 3, 1-2 children per scope) over the six propagation modes x callback outcome x link to the parent (same context, fresh context carrying the xid, grpc interceptor pair with upper/lower-case metadata, gin middleware with both header spellings, dubbo filter with SEATA_XID / TX_XID / tx_xid attachments), executed for real and interpreted by a reference interpreter of the documented semantics; distinct = distinct trees; non-trivial = depth > 1",
		Assume: append([]string{"the schedule/fault dimension is deliberately empty for this property (fault-free coordinator, benign delays): the quantifier is over programs", "integration transports (gRPC/HTTP/dubbo) are not run: the interceptors/middleware/filter are the real functions, the wire is the metadata/header/attachment map copied into a fresh context"}, commonAssume...)}
	specs["C05"] = &PropSpec{Level: "exploration", QuickRuns: 64, ThorRuns: 800, Wall: 240 * time.Second, MaxProcs: 2,
		Rule:   "episode = one global transaction with 1-3 TCC prepares (5 registered actions in interface and tagged-function style, parameter structs from a fixed family with generated values, registration accepted / refused / unanswered, try ok or failing) followed by 1-6 phase-two requests (commit/rollback, repeated, unknown resource, unknown branch id, application data as registered / empty / malformed, user method ok / error / panic); distinct = (parameter kind, registration, try) and (commit, data, unknown, result) signatures; non-trivial = any prepare, and any phase-two request that is not a plain successful one",
		Assume: append([]string{"user try/commit/rollback are recording stubs with scripted results", "nil prepare parameters are outside the generated family (reflect.ValueOf(nil) makes TwoPhaseAction.Prepare panic; noted in DESIGN.md, not part of the property's quantifier)"}, commonAssume...)}
	specs["C15"] = &PropSpec{Level: "exploration", QuickRuns: 64, ThorRuns: 800, Wall: 240 * time.Second, MaxProcs: 2,
		Rule:   "episode = 1-10 branch commit/rollback requests sent at once on one session, mixing branch types AT/TCC/XA and types without a manager, generated xids / branch ids (full 64-bit range) / resource ids, scripted manager outcome (any status, error, panic); managers finish in tape-chosen order (sim point inside the manager), write returns are scheduling points; distinct = (type, commit, outcome, status) signatures; non-trivial = more than one request in flight",
		Assume: append([]string{"resource managers are scripted stubs registered through the public RegisterResourceManager; the real managers are exercised by other properties' engines"}, commonAssume...)}
	atAssume := append([]string{"MySQL and go-sql-driver/mysql are a model (simdb); where MySQL's behaviour is uncertain the model takes the choice most favourable to the client", "DSN envelope: interpolateParams=true, parseTime=true, multiStatements=true; one table per statement; every table has a primary key; textual primary keys without the lock-key separators"}, commonAssume...)
	specs["C01"] = &PropSpec{Level: "exploration", QuickRuns: 160, ThorRuns: 3000, Wall: 240 * time.Second, MaxProcs: 2,
		Rule:   "run = generated schema (1-2 tables, key kinds int/auto-increment/varchar/composite, 2-5 further columns over the enabled type families, 0-6 rows) + 3-8 global transactions of 1-3 branches (autocommit statements and explicit local transactions of 1-4 DML statements: insert single/multi-row, update, delete, upsert; literal and bound parameters) that the business then fails, rolled back by the coordinator model in reverse branch order; configuration swarm over serializer, data validation, only-care-update-columns, async-worker settings; distinct = (statement kind, explicit, serializer, compress, validation, column mode, argument count) signatures",
		Assume: atAssume}
	specs["C08"] = &PropSpec{Level: "exploration", QuickRuns: 160, ThorRuns: 3000, Wall: 240 * time.Second, MaxProcs: 2,
		Rule:   "invariant at the undo_log seam of the AT simulation: every branch undo log handed to FlushUndoLog (verif-tagged observer) is compared with what the client's own parser/compressor API decodes from the (context, rollback_info) pair that reached the database model; values come from the C01 generator over all column families, configurations from the swarm; distinct = C01 signatures",
		Assume: atAssume}
	specs["C18"] = &PropSpec{Level: "exploration", QuickRuns: 160, ThorRuns: 3000, Wall: 240 * time.Second, MaxProcs: 2,
		Rule:   "invariant inside the AT simulation: for each intercepted statement the row diff the database model recorded around the business statement is compared with the before/after images captured at flush time (row set by primary key, values on the recorded columns); WHERE/ORDER/LIMIT/parameter-placement shapes from the generator; distinct = C01 signatures",
		Assume: atAssume}
	specs["C02"] = &PropSpec{Level: "fault_enumeration", QuickRuns: 48, ThorRuns: 1200, Wall: 120 * time.Second, MaxProcs: 2,
		Rule:   "run = one generated committing program (1-3 branches, autocommit and explicit local transactions); it is first executed fault-free (probe), then once per single-fault position read off the probe: database error / connection loss at each statement the proxy issued (before-image select, business statement, after-image select, undo_log insert, COMMIT, BEGIN; COMMIT also applied-then-lost), registration refused / lock conflict / unanswered / connection closed for each BranchRegister, status report refused 1,2,4,5 times after a failing COMMIT; evaluation = one (program, fault position) execution; distinct = fault classes",
		Assume: atAssume}
	specs["C03"] = &PropSpec{Level: "exploration", QuickRuns: 150, ThorRuns: 2400, Wall: 240 * time.Second, MaxProcs: 2, Modes: []string{"mixed", "sfu", "two"},
		Rule:   "mode mixed: invariants over generated commit/rollback runs (row diff of every committed local transaction within the lock keys the coordinator decoded for that branch; one key text per row over the run); mode sfu: generated SELECT ... FOR UPDATE statements inside a global transaction with the coordinator answering lockable / not lockable; mode two: 2-3 actors run global transactions of updates/deletes over the same 2-3 rows, every interleaving of statements, registrations and replies chosen by the tape, coordinator granting locks from its table; distinct = statement / mode signatures",
		Assume: atAssume}
	specs["C09"] = &PropSpec{Level: "exploration", QuickRuns: 160, ThorRuns: 3000, Wall: 240 * time.Second, MaxProcs: 2,
		Rule:   "run = C01-style schema and programs with data validation on; after the local commits a foreign writer (bare connection, no global transaction) applies 1-2 actions chosen from: change a written column, change an unwritten column, delete the row, re-insert a deleted key (same or other values), restore the before value, nothing; then the coordinator rolls back; judged per branch by a reference model of the three-way comparison over the branch's undo items (per statement and row kind, newest first) on the state the rollback transaction found; distinct = (row kinds, verdict, restored, foreign action set)",
		Assume: atAssume}
}
