package main

import "time"

var commonAssume = []string{
	"the coordinator is a reference model (simtc) written from the Seata v1 protocol, not the Java server",
	"dubbo-getty's transport loops are replicated by simnet (Session stub), not executed",
	"gost's default timer wheel is replaced by std timers (fake clock) through a patched module copy",
	"Go map / sync.Map iteration order is not seedable; oracles are set-valued where it matters",
}

func init() {
	specs["C04"] = &PropSpec{Level: "exploration", QuickRuns: 320, ThorRuns: 4000, Wall: 120 * time.Second, MaxProcs: 2,
		Rule:   "episode = one tm.WithGlobalTx call with generated callback outcome x joined/launcher x retry counts x per-attempt coordinator script (ok/fail/write error/silent/close) x cancellation point; distinct = distinct (outcome, joined, begin script met, end script met, cancel, retry counts) tuples; non-trivial = at least one fault, cancel, non-nil outcome or participant role",
		Assume: commonAssume}
	specs["C13"] = &PropSpec{Level: "exploration", QuickRuns: 64, ThorRuns: 640, Wall: 300 * time.Second, MaxProcs: 2,
		Rule:   "evaluation = one (frame sequence, partition into reads) pair pushed through the getty receive-loop replica; frame sequences of 1-5 frames with generated head maps and bodies; partitions: every single cut position (30% of sequences), every pair of cut positions (thorough, 8%), random chunk sizes otherwise; distinct = (frames, stream length, garbage length, chunks) signatures; every evaluation is non-trivial (at least one cut) except whole-stream deliveries",
		Assume: commonAssume}
}
