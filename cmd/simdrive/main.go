// simdrive is the check driver: it rebuilds the simulation binary from
// /repo's working tree, fans seeded child runs out over the cores, confirms,
// minimises and records violations, filters known findings and writes the
// evidence file.
//
//	simdrive check <Cxx> [--tier quick|thorough] [--runs N]
//	simdrive replay <file>
//	simdrive selftest [<Cxx> ...]
package main

import (
	"bytes"
	"encoding/json"
	"fmt"
	"os"
	"os/exec"
	"path"
	"path/filepath"
	"regexp"
	"runtime"
	"sort"
	"strconv"
	"strings"
	"sync"
	"time"
)

var verifDir = func() string {
	if d := os.Getenv("VERIF_DIR"); d != "" {
		return d
	}
	return "/verif"
}()

type Violation struct {
	Property string `json:"property"`
	Clause   string `json:"clause"`
	Detail   string `json:"detail"`
	Class    string `json:"class"`
	Seq      uint64 `json:"seq"`
}

type Result struct {
	Property    string            `json:"property"`
	Seed        uint64            `json:"seed"`
	Plan        json.RawMessage   `json:"plan"`
	Violations  []Violation       `json:"violations"`
	Episodes    int               `json:"episodes"`
	Steps       int               `json:"steps"`
	SimTimeNS   int64             `json:"sim_time_ns"`
	Faults      map[string]int    `json:"faults"`
	Probes      map[string]int    `json:"probes"`
	States      []string          `json:"states"`
	TraceHash   string            `json:"trace_hash"`
	Samples     []any             `json:"samples"`
	Inconcl     int               `json:"inconclusive"`
	Log         []string          `json:"log,omitempty"`
	Harness     string            `json:"harness_error,omitempty"`
	InvalidPlan string            `json:"invalid_plan,omitempty"`
	Components  map[string]string `json:"components,omitempty"`
	KnownHits   map[string]int    `json:"known_hits,omitempty"`
	KnownWhat   map[string]string `json:"known_what,omitempty"`
}

// PropSpec is the per-property batch configuration.
type PropSpec struct {
	Level     string
	QuickRuns int
	ThorRuns  int
	Wall      time.Duration // per child
	Race      bool
	// ClientOrder (non-empty): the client itself iterates a Go map / sync.Map
	// where the order is observable in the trace; equal seeds then give equal
	// verdicts but not equal trace hashes
	ClientOrder string
	Rule        string
	Assume      []string
	Modes       []string // optional sub-modes cycled over runs
	MaxProcs    int
	QuickModes  []string
}

var specs = map[string]*PropSpec{}

func env() []string {
	e := os.Environ()
	e = append(e, "GOFLAGS=-mod=mod", "GOPROXY=off", "GOSUMDB=off", "GOTOOLCHAIN=local", "GODEBUG=randautoseed=0", "VERIF_KNOWN="+filepath.Join(verifDir, "known_findings.jsonl"))
	return e
}

func goBin() string {
	if p, err := exec.LookPath("go1.26.8"); err == nil {
		return p
	}
	return "/opt/veriftools/go1.26.8/bin/go"
}

func build(race bool) (string, error) {
	out := filepath.Join(verifDir, "bin", "sim.test")
	args := []string{"test", "-c", "-tags", "verif", "-o", out}
	if race {
		out = filepath.Join(verifDir, "bin", "sim.race.test")
		args = []string{"test", "-c", "-race", "-tags", "verif", "-o", out}
	}
	args = append(args, "./sim")
	cmd := exec.Command(goBin(), args...)
	cmd.Dir = verifDir
	cmd.Env = env()
	var buf bytes.Buffer
	cmd.Stdout, cmd.Stderr = &buf, &buf
	if err := cmd.Run(); err != nil {
		return "", fmt.Errorf("build failed: %v\n%s", err, buf.String())
	}
	return out, nil
}

// yieldBin / yieldRoot: the race binary built from a copy of the client with
// scheduling points around its mutex operations (cmd/yieldinst), used by runs
// in mode "yield"; the copy lives outside /repo and /verif and is removed as
// soon as the binary is linked.
var yieldBin, yieldRoot string

func repoDir() string { return "/repo" }

func hasMode(ms []string, m string) bool {
	for _, x := range ms {
		if x == m {
			return true
		}
	}
	return false
}

func buildYield(race bool) error {
	if yieldBin != "" {
		return nil
	}
	run := func(dir string, name string, args ...string) error {
		cmd := exec.Command(name, args...)
		cmd.Dir = dir
		cmd.Env = env()
		var buf bytes.Buffer
		cmd.Stdout, cmd.Stderr = &buf, &buf
		if err := cmd.Run(); err != nil {
			return fmt.Errorf("%s %v failed: %v\n%s", name, args, err, buf.String())
		}
		return nil
	}
	inst := filepath.Join(verifDir, "bin", "yieldinst")
	if err := run(verifDir, goBin(), "build", "-o", inst, "./cmd/yieldinst"); err != nil {
		return err
	}
	scratch, err := os.MkdirTemp("", "verif-yield-")
	if err != nil {
		return err
	}
	defer os.RemoveAll(scratch)
	repoCopy := filepath.Join(scratch, "repo")
	if err := run(verifDir, inst, repoDir(), repoCopy); err != nil {
		return err
	}
	mod, err := os.ReadFile(filepath.Join(verifDir, "go.mod"))
	if err != nil {
		return err
	}
	ms := string(mod)
	ms = strings.Replace(ms, "replace seata.apache.org/seata-go => /repo", "replace seata.apache.org/seata-go => "+repoCopy, 1)
	ms = strings.Replace(ms, "=> ./third_party/gost", "=> "+filepath.Join(verifDir, "third_party", "gost"), 1)
	if !strings.Contains(ms, repoCopy) {
		return fmt.Errorf("go.mod has no replace line for the client to redirect")
	}
	modfile := filepath.Join(scratch, "go.mod")
	if err := os.WriteFile(modfile, []byte(ms), 0o644); err != nil {
		return err
	}
	if sum, err := os.ReadFile(filepath.Join(verifDir, "go.sum")); err == nil {
		os.WriteFile(filepath.Join(scratch, "go.sum"), sum, 0o644)
	}
	out := filepath.Join(verifDir, "bin", "sim.yieldp.test")
	args := []string{"test", "-c", "-tags", "verif verifyield", "-modfile", modfile, "-o", out, "./sim"}
	if race {
		out = filepath.Join(verifDir, "bin", "sim.yield.test")
		args = []string{"test", "-c", "-race", "-tags", "verif verifyield", "-modfile", modfile, "-o", out, "./sim"}
	}
	if err := run(verifDir, goBin(), args...); err != nil {
		return err
	}
	yieldBin, yieldRoot = out, repoCopy
	return nil
}

type child struct {
	res  *Result
	exit int
	err  string
	wall time.Duration
}

func runChild(bin, prop string, seed uint64, planFile, tier, mode string, wall time.Duration, maxprocs int, tmp string) child {
	out := filepath.Join(tmp, fmt.Sprintf("%s-%d-%d.json", prop, seed, time.Now().UnixNano()))
	args := []string{"-test.run", "^TestSim$", "-test.timeout", "0", "-prop", prop, "-seed", strconv.FormatUint(seed, 10), "-out", out, "-tier", tier, "-wall", wall.String()}
	if planFile != "" {
		args = append(args, "-plan", planFile)
	}
	if mode != "" {
		args = append(args, "-mode", mode)
	}
	if mode == "yield" {
		if yieldBin == "" {
			return child{exit: 2, err: "mode yield without the instrumented binary"}
		}
		bin = yieldBin
	}
	cmd := exec.Command(bin, args...)
	cmd.Dir = filepath.Join(verifDir, "sim")
	e := env()
	if maxprocs > 0 {
		e = append(e, "GOMAXPROCS="+strconv.Itoa(maxprocs))
	}
	cmd.Env = e
	var buf bytes.Buffer
	cmd.Stdout, cmd.Stderr = &buf, &buf
	t0 := time.Now()
	done := make(chan error, 1)
	if err := cmd.Start(); err != nil {
		return child{exit: 2, err: err.Error()}
	}
	go func() { done <- cmd.Wait() }()
	var err error
	select {
	case err = <-done:
	case <-time.After(wall + 30*time.Second):
		cmd.Process.Kill()
		<-done
		return child{exit: 2, err: "child exceeded wall cap", wall: time.Since(t0)}
	}
	c := child{wall: time.Since(t0)}
	if err != nil {
		if ee, ok := err.(*exec.ExitError); ok {
			c.exit = ee.ExitCode()
		} else {
			c.exit = 2
		}
	}
	b, rerr := os.ReadFile(out)
	os.Remove(out)
	if rerr != nil {
		c.exit = 2
		c.err = fmt.Sprintf("no result file (exit %d): %s", c.exit, tail(buf.String(), 4000))
		return c
	}
	var r Result
	if jerr := json.Unmarshal(b, &r); jerr != nil {
		c.exit = 2
		c.err = "bad result json: " + jerr.Error()
		return c
	}
	c.res = &r
	// race-detector reports of the child become violations
	raceOut := buf.String()
	if yieldRoot != "" {
		// the instrumented copy keeps every statement on its line
		raceOut = strings.ReplaceAll(raceOut, yieldRoot+"/", repoDir()+"/")
	}
	for _, v := range raceViolations(prop, raceOut) {
		if pat, what, ok := knownOpen(prop, v.Clause, v.Class); ok {
			if c.res.KnownHits == nil {
				c.res.KnownHits, c.res.KnownWhat = map[string]int{}, map[string]string{}
			}
			c.res.KnownHits[pat]++
			if c.res.KnownWhat[pat] == "" {
				c.res.KnownWhat[pat] = what + " :: " + tail(v.Detail, 200)
			}
			continue
		}
		c.res.Violations = append(c.res.Violations, v)
		if c.exit == 0 || c.exit == 66 {
			c.exit = 1
		}
	}
	if c.exit == 66 {
		c.exit = 1
	}
	if c.exit == 2 {
		c.err = r.Harness
		if c.err == "" {
			c.err = tail(buf.String(), 4000)
		}
	}
	return c
}

// knownOpen looks a (clause, class) up among the open known findings of prop
// (same matching as the in-process filter: exact or path.Match glob).
func knownOpen(prop, clause, class string) (pattern, what string, ok bool) {
	b, err := os.ReadFile(filepath.Join(verifDir, "known_findings.jsonl"))
	if err != nil {
		return "", "", false
	}
	key := clause + "/" + class
	for _, line := range strings.Split(string(b), "\n") {
		line = strings.TrimSpace(line)
		if line == "" || strings.HasPrefix(line, "#") {
			continue
		}
		var e struct {
			Property, Clause, Class, Status, What string
		}
		if json.Unmarshal([]byte(line), &e) != nil || e.Property != prop || e.Status != "open" {
			continue
		}
		pat := e.Clause + "/" + e.Class
		if pat == key {
			return pat, e.What, true
		}
		if strings.ContainsAny(pat, "*?") {
			if m, _ := path.Match(pat, key); m {
				return pat, e.What, true
			}
		}
	}
	return "", "", false
}

var raceFrameRe = regexp.MustCompile(`^  (\S+)\(\)\s*$`)

// raceViolations parses "WARNING: DATA RACE" blocks. A report counts when the
// access site of at least one of its two stacks (first frame outside the Go
// runtime) lies in the client; reports between two harness access sites are the
// price of the quiet mutexes (simkit.QuietMutex) and are dropped. The class is
// made of the first client frame of each stack.
func raceViolations(prop, out string) []Violation {
	var vs []Violation
	seen := map[string]bool{}
	blocks := strings.Split(out, "WARNING: DATA RACE")
	const client = "seata.apache.org/seata-go/"
	for _, b := range blocks[1:] {
		if k := strings.Index(b, "=================="); k >= 0 {
			b = b[:k]
		}
		type stack struct{ site, firstClient string }
		var stacks []*stack
		var cur *stack
		for _, line := range strings.Split(b, "\n") {
			switch {
			case strings.HasPrefix(line, "Write at") || strings.HasPrefix(line, "Read at") || strings.HasPrefix(line, "Previous write at") || strings.HasPrefix(line, "Previous read at"):
				cur = &stack{}
				stacks = append(stacks, cur)
			case strings.HasPrefix(line, "Goroutine ") || strings.HasPrefix(line, "Location"):
				cur = nil
			case cur != nil:
				if m := raceFrameRe.FindStringSubmatch(line); m != nil {
					fn := m[1]
					if cur.site == "" && !strings.HasPrefix(fn, "runtime.") && !strings.HasPrefix(fn, "internal/") && !strings.HasPrefix(fn, "sync.") && !strings.HasPrefix(fn, "sync/") {
						cur.site = fn
					}
					if cur.firstClient == "" && strings.HasPrefix(fn, client) {
						cur.firstClient = fn
					}
				}
			}
		}
		inClient := false
		var fs []string
		for _, st := range stacks {
			if strings.HasPrefix(st.site, client) {
				inClient = true
			}
			f := st.firstClient
			if f == "" {
				f = st.site
			}
			f = strings.TrimPrefix(f, client)
			f = strings.NewReplacer("/", ".", "(*", "", ")", "").Replace(f)
			fs = append(fs, f)
		}
		if !inClient {
			continue
		}
		if len(fs) > 2 {
			fs = fs[:2]
		}
		sort.Strings(fs)
		class := "race-" + strings.Join(fs, "-vs-")
		if seen[class] {
			continue
		}
		seen[class] = true
		vs = append(vs, Violation{Property: prop, Clause: "no-data-race", Class: class, Detail: "race detector: " + strings.TrimSpace(tail(strings.TrimSpace(b), 3000))})
	}
	return vs
}

func tail(s string, n int) string {
	if len(s) > n {
		return s[len(s)-n:]
	}
	return s
}

func classKey(v Violation) string { return v.Property + "/" + v.Clause + "/" + v.Class }

// ---- minimisation over the JSON plan ---------------------------------------

type pathElem struct {
	key string
	idx int
}

func getAt(v any, path []pathElem) any {
	for _, p := range path {
		switch t := v.(type) {
		case map[string]any:
			v = t[p.key]
		case []any:
			if p.idx >= len(t) {
				return nil
			}
			v = t[p.idx]
		default:
			return nil
		}
	}
	return v
}

func setAt(root any, path []pathElem, nv any) any {
	if len(path) == 0 {
		return nv
	}
	p := path[0]
	switch t := root.(type) {
	case map[string]any:
		cp := map[string]any{}
		for k, v := range t {
			cp[k] = v
		}
		cp[p.key] = setAt(t[p.key], path[1:], nv)
		return cp
	case []any:
		cp := append([]any(nil), t...)
		if p.idx >= len(cp) {
			return cp
		}
		cp[p.idx] = setAt(t[p.idx], path[1:], nv)
		return cp
	}
	return root
}

func arrays(v any, path []pathElem, out *[][]pathElem) {
	switch t := v.(type) {
	case map[string]any:
		keys := make([]string, 0, len(t))
		for k := range t {
			keys = append(keys, k)
		}
		sort.Strings(keys)
		for _, k := range keys {
			arrays(t[k], append(append([]pathElem(nil), path...), pathElem{key: k}), out)
		}
	case []any:
		if len(t) > 0 {
			*out = append(*out, append([]pathElem(nil), path...))
		}
		for i := range t {
			arrays(t[i], append(append([]pathElem(nil), path...), pathElem{idx: i}), out)
		}
	}
}

type minimiser struct {
	bin, prop, tier, mode string
	wall                  time.Duration
	maxprocs              int
	tmp                   string
	class                 string
	seed                  uint64
	budget                int
	used                  int
}

func (m *minimiser) fails(plan any) bool {
	if m.used >= m.budget {
		return false
	}
	m.used++
	b, _ := json.Marshal(plan)
	f := filepath.Join(m.tmp, fmt.Sprintf("min-%d.json", time.Now().UnixNano()))
	os.WriteFile(f, b, 0o644)
	defer os.Remove(f)
	c := runChild(m.bin, m.prop, m.seed, f, m.tier, m.mode, m.wall, m.maxprocs, m.tmp)
	if c.exit == 2 {
		if d := os.Getenv("VERIF_KEEP_TROUBLE"); d != "" {
			os.MkdirAll(d, 0o755)
			os.WriteFile(filepath.Join(d, fmt.Sprintf("%s-%d.json", m.prop, time.Now().UnixNano())), b, 0o644)
			os.WriteFile(filepath.Join(d, fmt.Sprintf("%s-%d.err", m.prop, time.Now().UnixNano())), []byte(c.err), 0o644)
		}
	}
	if c.res == nil || c.exit != 1 {
		return false
	}
	for _, v := range c.res.Violations {
		if classKey(v) == m.class {
			return true
		}
	}
	return false
}

func (m *minimiser) minimise(plan any) any {
	// 1. simplest schedule first: FIFO tape
	if pm, ok := plan.(map[string]any); ok {
		if t, ok := pm["tape"].([]any); ok && len(t) > 0 {
			cand := setAt(plan, []pathElem{{key: "tape"}}, []any{})
			if m.fails(cand) {
				plan = cand
			}
		}
	}
	// 2. ddmin on every array (outermost first), repeated until no progress
	for progress := true; progress && m.used < m.budget; {
		progress = false
		var paths [][]pathElem
		arrays(plan, nil, &paths)
		for _, p := range paths {
			if len(p) > 0 && p[len(p)-1].key == "tape" {
				continue
			}
			arr, ok := getAt(plan, p).([]any)
			if !ok || len(arr) == 0 {
				continue
			}
			n := 2
			for len(arr) >= 1 && m.used < m.budget {
				chunk := (len(arr) + n - 1) / n
				reduced := false
				for start := 0; start < len(arr); start += chunk {
					end := start + chunk
					if end > len(arr) {
						end = len(arr)
					}
					cand := append(append([]any(nil), arr[:start]...), arr[end:]...)
					cp := setAt(plan, p, cand)
					if m.fails(cp) {
						plan = cp
						arr = cand
						reduced = true
						progress = true
						if n > 2 {
							n--
						}
						break
					}
				}
				if !reduced {
					if chunk <= 1 {
						break
					}
					n *= 2
					if n > len(arr) {
						n = len(arr)
					}
				}
			}
		}
	}
	// 3. truncate the tape
	if pm, ok := plan.(map[string]any); ok {
		if t, ok := pm["tape"].([]any); ok {
			for len(t) > 0 && m.used < m.budget {
				cand := setAt(plan, []pathElem{{key: "tape"}}, t[:len(t)/2])
				if m.fails(cand) {
					plan = cand
					t = t[:len(t)/2]
				} else {
					break
				}
			}
		}
	}
	return plan
}

// ---- check ------------------------------------------------------------------

type replayFile struct {
	Property  string          `json:"property"`
	Seed      uint64          `json:"seed"`
	Tier      string          `json:"tier"`
	Mode      string          `json:"mode,omitempty"`
	Violation Violation       `json:"violation"`
	TraceHash string          `json:"trace_hash"`
	Minimised bool            `json:"minimised"`
	Confirmed int             `json:"confirmed_replays"`
	Log       []string        `json:"log,omitempty"`
	Faults    map[string]int  `json:"fault_trace,omitempty"`
	Plan      json.RawMessage `json:"plan"`
}

func check(prop, tier string, runsOverride int) int {
	spec := specs[prop]
	if spec == nil {
		fmt.Fprintf(os.Stderr, "no check registered for %s\n", prop)
		return 2
	}
	t0 := time.Now()
	base := uint64(1)
	if s := os.Getenv("VERIF_SEED"); s != "" {
		if v, err := strconv.ParseUint(s, 10, 64); err == nil {
			base = v
		}
	}
	bin, err := build(spec.Race)
	if err == nil && hasMode(spec.Modes, "yield") {
		err = buildYield(spec.Race)
	}
	if err != nil {
		fmt.Fprintln(os.Stderr, err)
		return 2
	}
	tmp, _ := os.MkdirTemp("", "simdrive-"+prop+"-")
	defer os.RemoveAll(tmp)
	runs := spec.QuickRuns
	if tier == "thorough" {
		runs = spec.ThorRuns
	}
	if runsOverride > 0 {
		runs = runsOverride
	}
	modes := spec.Modes
	if tier == "quick" && len(spec.QuickModes) > 0 {
		modes = spec.QuickModes
	}
	workers := runtime.NumCPU()
	if spec.Race && workers > 4 {
		workers = 4
	}
	type job struct {
		i    int
		seed uint64
		mode string
	}
	jobs := make(chan job)
	results := make([]child, runs)
	metas := make([]job, runs)
	var wg sync.WaitGroup
	for w := 0; w < workers; w++ {
		wg.Add(1)
		go func() {
			defer wg.Done()
			for j := range jobs {
				results[j.i] = runChild(bin, prop, j.seed, "", tier, j.mode, spec.Wall, spec.MaxProcs, tmp)
			}
		}()
	}
	for i := 0; i < runs; i++ {
		mode := ""
		if len(modes) > 0 {
			mode = modes[i%len(modes)]
		}
		j := job{i: i, seed: base*1000003 + uint64(i), mode: mode}
		metas[i] = j
		jobs <- j
	}
	close(jobs)
	wg.Wait()

	// aggregate
	agg := struct {
		evals, steps, episodes, inconcl int
		simNS                           int64
		faults, probes                  map[string]int
		states                          map[string]bool
		hashes                          map[string]bool
		samples                         []any
		components                      map[string]string
		known                           map[string]int
		knownWhat                       map[string]string
	}{faults: map[string]int{}, probes: map[string]int{}, states: map[string]bool{}, hashes: map[string]bool{}, known: map[string]int{}, knownWhat: map[string]string{}}
	harness := 0
	var harnessMsgs []string
	type vio struct {
		v    Violation
		c    child
		meta job
	}
	var vios []vio
	for i, c := range results {
		if c.res == nil || c.exit == 2 || c.exit == 3 {
			harness++
			if len(harnessMsgs) < 3 {
				harnessMsgs = append(harnessMsgs, fmt.Sprintf("seed %d: exit %d %s", metas[i].seed, c.exit, tail(c.err, 1500)))
			}
			continue
		}
		r := c.res
		agg.evals += r.Episodes
		agg.steps += r.Steps
		agg.simNS += r.SimTimeNS
		agg.inconcl += r.Inconcl
		for k, v := range r.Faults {
			agg.faults[k] += v
		}
		for k, v := range r.Probes {
			agg.probes[k] += v
		}
		for _, s := range r.States {
			agg.states[s] = true
		}
		agg.hashes[r.TraceHash] = true
		if len(agg.samples) < 4 {
			agg.samples = append(agg.samples, r.Samples...)
		}
		if agg.components == nil {
			agg.components = r.Components
		}
		for k, v := range r.KnownHits {
			agg.known[k] += v
			if agg.knownWhat[k] == "" {
				agg.knownWhat[k] = r.KnownWhat[k]
			}
		}
		for _, v := range r.Violations {
			vios = append(vios, vio{v, c, metas[i]})
		}
	}
	exit := 0
	// violations: one report per class (first occurrence), confirmed + minimised
	seen := map[string]bool{}
	reported := 0
	os.MkdirAll(filepath.Join(verifDir, "replays"), 0o755)
	for _, x := range vios {
		k := classKey(x.v)
		if seen[k] {
			continue
		}
		seen[k] = true
		exit = 1
		if reported >= 4 {
			fmt.Printf("  (further unlisted class, no replay written: clause=%s class=%s seed=%d)\n", x.v.Clause, x.v.Class, x.meta.seed)
			continue
		}
		reported++
		rf := replayFile{Property: prop, Seed: x.meta.seed, Tier: tier, Mode: x.meta.mode, Violation: x.v, TraceHash: x.c.res.TraceHash, Log: x.c.res.Log, Faults: x.c.res.Faults, Plan: x.c.res.Plan}
		// confirm in a fresh process
		mwall := 3*x.c.wall + 20*time.Second
		if mwall > spec.Wall {
			mwall = spec.Wall
		}
		m := &minimiser{bin: bin, prop: prop, tier: tier, mode: x.meta.mode, wall: mwall, maxprocs: spec.MaxProcs, tmp: tmp, class: k, seed: x.meta.seed, budget: 80}
		var plan any
		dec := json.NewDecoder(bytes.NewReader(x.c.res.Plan))
		dec.UseNumber() // keep 64-bit integers of the plan exact
		if dec.Decode(&plan) == nil {
			for a := 0; a < 3; a++ {
				m.budget++
				if m.fails(plan) {
					rf.Confirmed++
					break
				}
			}
			if rf.Confirmed > 0 && !spec.Race {
				min := m.minimise(plan)
				b, _ := json.Marshal(min)
				// final run of the minimised plan to capture its log
				f := filepath.Join(tmp, "final.json")
				os.WriteFile(f, b, 0o644)
				c := runChild(bin, prop, x.meta.seed, f, tier, x.meta.mode, mwall, spec.MaxProcs, tmp)
				if c.res != nil && c.exit == 1 {
					for _, v := range c.res.Violations {
						if classKey(v) == k {
							rf.Violation = v
							rf.Plan = c.res.Plan
							rf.Log = c.res.Log
							rf.TraceHash = c.res.TraceHash
							rf.Faults = c.res.Faults
							rf.Minimised = true
							break
						}
					}
				}
			}
		}
		name := fmt.Sprintf("%s-%d-%s.json", prop, x.meta.seed, sanitize(x.v.Class))
		path := filepath.Join(verifDir, "replays", name)
		b, _ := json.MarshalIndent(rf, "", " ")
		os.WriteFile(path, b, 0o644)
		fmt.Printf("VIOLATION property=%s replay=%s\n", prop, path)
		fmt.Printf("  clause=%s class=%s confirmed_replays=%d minimised=%v\n  %s\n", x.v.Clause, x.v.Class, rf.Confirmed, rf.Minimised, tail(rf.Violation.Detail, 600))
	}
	var kkeys []string
	for k := range agg.known {
		kkeys = append(kkeys, k)
	}
	sort.Strings(kkeys)
	for _, k := range kkeys {
		fmt.Printf("KNOWN-FINDING: property=%s %s (%d hits) %s\n", prop, k, agg.known[k], tail(agg.knownWhat[k], 300))
	}
	ok := runs - harness
	if harness > 0 {
		fmt.Fprintf(os.Stderr, "simdrive: %d of %d runs had harness trouble\n%s\n", harness, runs, strings.Join(harnessMsgs, "\n"))
		if exit == 0 && (ok == 0 || harness*10 > runs) {
			exit = 2
		}
	}
	wall := time.Since(t0).Seconds()
	nontriv := 0
	var stateList []string
	for s := range agg.states {
		if strings.HasPrefix(s, "!") {
			nontriv++
		}
		stateList = append(stateList, s)
	}
	sort.Strings(stateList)
	if len(stateList) > 12 {
		stateList = stateList[:12]
	}
	if len(agg.samples) == 0 {
		agg.samples = append(agg.samples, "no sample recorded")
	}
	ev := map[string]any{
		"property_id": prop,
		"tier":        tier,
		"seed":        base,
		"level":       spec.Level,
		"coverage": map[string]any{
			"evaluations":               max(agg.evals, 0),
			"distinct_nontrivial":       nontriv,
			"rule":                      spec.Rule,
			"samples":                   agg.samples,
			"runs":                      ok,
			"runs_with_harness_trouble": harness,
			"seeds":                     fmt.Sprintf("%d..%d", base*1000003, base*1000003+uint64(runs)-1),
			"runs_per_hour":             int(float64(ok) / wall * 3600),
			"episodes":                  agg.evals,
			"scheduler_steps":           agg.steps,
			"simulated_time_s":          float64(agg.simNS) / 1e9,
			"faults_fired":              agg.faults,
			"rare_branch_probes":        agg.probes,
			"distinct_trace_hashes":     len(agg.hashes),
			"distinct_state_signatures": len(agg.states),
			"state_signature_examples":  stateList,
			"inconclusive":              agg.inconcl,
			"components":                agg.components,
			"known_finding_hits":        agg.known,
			"workers":                   workers,
		},
		"assumptions": spec.Assume,
		"wall_s":      wall,
		"violations":  len(seen),
	}
	os.MkdirAll(filepath.Join(verifDir, "evidence"), 0o755)
	b, _ := json.MarshalIndent(ev, "", " ")
	if err := os.WriteFile(filepath.Join(verifDir, "evidence", prop+".json"), b, 0o644); err != nil {
		fmt.Fprintln(os.Stderr, err)
		return 2
	}
	fmt.Printf("%s %s: runs=%d episodes=%d steps=%d sim_time=%.0fs distinct_traces=%d nontrivial_states=%d violations=%d known=%d wall=%.1fs\n",
		prop, tier, ok, agg.evals, agg.steps, float64(agg.simNS)/1e9, len(agg.hashes), nontriv, len(seen), len(agg.known), wall)
	return exit
}

func sanitize(s string) string {
	var b strings.Builder
	for _, r := range s {
		if (r >= 'a' && r <= 'z') || (r >= 'A' && r <= 'Z') || (r >= '0' && r <= '9') || r == '-' {
			b.WriteRune(r)
		} else {
			b.WriteRune('_')
		}
	}
	if b.Len() > 60 {
		return b.String()[:60]
	}
	return b.String()
}

// ---- replay -----------------------------------------------------------------

func replay(path string) int {
	if abs, err := filepath.Abs(path); err == nil {
		path = abs
	}
	b, err := os.ReadFile(path)
	if err != nil {
		fmt.Fprintln(os.Stderr, err)
		return 2
	}
	var rf replayFile
	if err := json.Unmarshal(b, &rf); err != nil {
		fmt.Fprintln(os.Stderr, err)
		return 2
	}
	spec := specs[rf.Property]
	if spec == nil {
		fmt.Fprintln(os.Stderr, "unknown property in replay file")
		return 2
	}
	bin, err := build(spec.Race)
	if err == nil && rf.Mode == "yield" {
		err = buildYield(spec.Race)
	}
	if err != nil {
		fmt.Fprintln(os.Stderr, err)
		return 2
	}
	tmp, _ := os.MkdirTemp("", "simdrive-replay-")
	defer os.RemoveAll(tmp)
	attempts := 1
	if spec.Race {
		attempts = 10
	}
	for a := 0; a < attempts+4; a++ {
		c := runChild(bin, rf.Property, rf.Seed, path, rf.Tier, rf.Mode, spec.Wall, spec.MaxProcs, tmp)
		if c.res == nil {
			fmt.Fprintln(os.Stderr, "replay: harness trouble:", c.err)
			return 2
		}
		for _, v := range c.res.Violations {
			if classKey(v) == classKey(rf.Violation) {
				same := c.res.TraceHash == rf.TraceHash
				fmt.Printf("VIOLATION property=%s replay=%s\n  reproduced: clause=%s class=%s trace_hash_equal=%v attempt=%d\n  %s\n", rf.Property, path, v.Clause, v.Class, same, a+1, tail(v.Detail, 600))
				if same || a >= 4 || spec.Race {
					return 1
				}
			}
		}
		if a >= attempts-1 && len(c.res.Violations) == 0 && !spec.Race {
			break
		}
	}
	fmt.Printf("replay of %s did not reproduce the violation\n", path)
	return 0
}

// ---- selftest (determinism) -------------------------------------------------

func selftest(props []string) int {
	if len(props) == 0 {
		for p, s := range specs {
			if !s.Race {
				props = append(props, p)
			}
		}
		sort.Strings(props)
	}
	bad := 0
	tmp, _ := os.MkdirTemp("", "simdrive-selftest-")
	defer os.RemoveAll(tmp)
	nseeds := 24
	if s := os.Getenv("SELFTEST_SEEDS"); s != "" {
		nseeds, _ = strconv.Atoi(s)
	}
	for _, prop := range props {
		spec := specs[prop]
		if spec == nil {
			continue
		}
		bin, err := build(false)
		if err != nil {
			fmt.Fprintln(os.Stderr, err)
			return 2
		}
		yieldTol := 0
		type key struct {
			seed uint64
			mode string
		}
		type jb struct {
			k  key
			mp int
		}
		var jobs []jb
		var modes []string
		for _, m := range spec.Modes {
			if m == "yield" && spec.Race { // free-running: never deterministic
				continue
			}
			modes = append(modes, m)
		}
		if hasMode(modes, "yield") {
			yieldBin, yieldRoot = "", ""
			if err := buildYield(false); err != nil {
				fmt.Fprintln(os.Stderr, err)
				return 2
			}
		}
		if len(modes) == 0 {
			modes = []string{""}
		}
		for i := 0; i < nseeds; i++ {
			for _, mp := range []int{1, 1, 4, 16} {
				jobs = append(jobs, jb{key{uint64(9000 + i), modes[i%len(modes)]}, mp})
			}
		}
		hashes := map[key]map[string]int{}
		var mu sync.Mutex
		var wg sync.WaitGroup
		ch := make(chan jb)
		for w := 0; w < runtime.NumCPU(); w++ {
			wg.Add(1)
			go func() {
				defer wg.Done()
				for j := range ch {
					c := runChild(bin, prop, j.k.seed, "", "quick", j.k.mode, spec.Wall, j.mp, tmp)
					h := "harness:" + c.err
					if c.res != nil && c.exit != 2 {
						h = c.res.TraceHash + fmt.Sprintf("/v%d", len(c.res.Violations))
					}
					mu.Lock()
					if hashes[j.k] == nil {
						hashes[j.k] = map[string]int{}
					}
					hashes[j.k][h]++
					mu.Unlock()
				}
			}()
		}
		for _, j := range jobs {
			ch <- j
		}
		close(ch)
		wg.Wait()
		div := 0
		for k, hs := range hashes {
			if len(hs) != 1 {
				if k.mode == "yield" {
					// goroutines woken at the same simulated instant reach their first
					// scheduling point in an order nobody controls, which names the
					// points differently: equal verdicts are required, equal traces not
					vs := map[string]bool{}
					for h := range hs {
						vs[h[strings.LastIndex(h, "/")+1:]] = true
					}
					if len(vs) == 1 {
						yieldTol++
						continue
					}
				}
				div++
				fmt.Printf("selftest %s: seed %d mode %q diverged: %v\n", prop, k.seed, k.mode, hs)
			}
		}
		if yieldTol > 0 {
			fmt.Printf("selftest %s: %d seed(s) of mode yield differ in the trace only (same verdict): tolerated\n", prop, yieldTol)
		}
		fmt.Printf("selftest %s: %d seeds x 4 executions (GOMAXPROCS 1,1,4,16): %d divergent\n", prop, nseeds, div)
		if spec.ClientOrder != "" {
			// the verdict-level comparison still holds: same number of violations
			vdiv := 0
			for _, hs := range hashes {
				vs := map[string]bool{}
				for h := range hs {
					vs[h[strings.LastIndex(h, "/")+1:]] = true
				}
				if len(vs) != 1 {
					vdiv++
				}
			}
			fmt.Printf("selftest %s: trace divergence tolerated (%s); verdicts divergent: %d\n", prop, spec.ClientOrder, vdiv)
			bad += vdiv
			continue
		}
		bad += div
	}
	if bad > 0 {
		return 2
	}
	return 0
}

func main() {
	if len(os.Args) < 2 {
		fmt.Fprintln(os.Stderr, "usage: simdrive check <Cxx> [--tier quick|thorough] | replay <file> | selftest [Cxx...]")
		os.Exit(2)
	}
	switch os.Args[1] {
	case "check":
		if len(os.Args) < 3 {
			os.Exit(2)
		}
		tier := os.Getenv("VERIF_TIER")
		if tier == "" {
			tier = "quick"
		}
		runs := 0
		for i := 3; i < len(os.Args); i++ {
			switch os.Args[i] {
			case "--tier":
				if i+1 < len(os.Args) {
					tier = os.Args[i+1]
					i++
				}
			case "--runs":
				if i+1 < len(os.Args) {
					runs, _ = strconv.Atoi(os.Args[i+1])
					i++
				}
			case "quick", "thorough":
				tier = os.Args[i]
			}
		}
		os.Exit(check(os.Args[2], tier, runs))
	case "replay":
		if len(os.Args) < 3 {
			os.Exit(2)
		}
		os.Exit(replay(os.Args[2]))
	case "selftest":
		os.Exit(selftest(os.Args[2:]))
	}
	os.Exit(2)
}
