#!/bin/sh
# Builds the check driver and warms the go1.26.8 build cache for the simulation binary (offline).
set -e
cd "$(dirname "$(readlink -f "$0")")"
export GOFLAGS=-mod=mod GOPROXY=off GOSUMDB=off GOTOOLCHAIN=local
GO=/opt/veriftools/go1.26.8/bin/go
mkdir -p bin evidence replays
$GO build -o bin/simdrive ./cmd/simdrive
$GO test -c -tags verif -o bin/sim.test ./sim
echo setup ok
