module verif

go 1.26

require (
	github.com/anishathalye/porcupine v1.3.0
	seata.apache.org/seata-go v0.0.0
	dubbo.apache.org/dubbo-go/v3 v3.0.4
	github.com/DATA-DOG/go-sqlmock v1.5.0
	github.com/apache/dubbo-getty v1.5.0
	github.com/arana-db/parser v0.2.17
	github.com/bluele/gcache v0.0.2
	github.com/dsnet/compress v0.0.1
	github.com/dubbogo/gost v1.13.2
	github.com/gin-gonic/gin v1.9.1
	github.com/go-sql-driver/mysql v1.6.0
	github.com/goccy/go-json v0.10.2
	github.com/golang/mock v1.6.0
	github.com/google/uuid v1.3.0
	github.com/natefinch/lumberjack v2.0.0+incompatible
	github.com/pierrec/lz4/v4 v4.1.17
	github.com/pkg/errors v0.9.1
	github.com/prometheus/client_golang v1.12.2
	github.com/prometheus/common v0.32.1
	github.com/sijms/go-ora/v2 v2.5.17
	github.com/stretchr/testify v1.8.3
	go.uber.org/atomic v1.9.0
	go.uber.org/zap v1.27.0
	google.golang.org/grpc v1.56.3
	gopkg.in/yaml.v2 v2.4.0
	vimagination.zapto.org/byteio v0.0.0-20200222190125-d27cba0f0b10
	github.com/agiledragon/gomonkey/v2 v2.12.0
	github.com/golang/protobuf v1.5.3
	go.etcd.io/etcd/api/v3 v3.5.6
	go.etcd.io/etcd/client/v3 v3.5.6
	google.golang.org/protobuf v1.30.0
	github.com/knadh/koanf v1.5.0
	github.com/knadh/koanf/v2 v2.1.2
	github.com/RoaringBitmap/roaring v1.2.0 // indirect
	github.com/Workiva/go-datastructures v1.0.52 // indirect
	github.com/apache/dubbo-go-hessian2 v1.11.4 // indirect
	github.com/beorn7/perks v1.0.1 // indirect
	github.com/bits-and-blooms/bitset v1.2.0 // indirect
	github.com/bytedance/sonic v1.9.1 // indirect
	github.com/cespare/xxhash/v2 v2.2.0 // indirect
	github.com/chenzhuoyu/base64x v0.0.0-20221115062448-fe3a3abad311 // indirect
	github.com/coreos/go-semver v0.3.0 // indirect
	github.com/coreos/go-systemd/v22 v22.3.2 // indirect
	github.com/creasty/defaults v1.5.2 // indirect
	github.com/davecgh/go-spew v1.1.1 // indirect
	github.com/gabriel-vasile/mimetype v1.4.2 // indirect
	github.com/gin-contrib/sse v0.1.0 // indirect
	github.com/go-ole/go-ole v1.2.6 // indirect
	github.com/go-playground/locales v0.14.1 // indirect
	github.com/go-playground/universal-translator v0.18.1 // indirect
	github.com/go-viper/mapstructure/v2 v2.2.1 // indirect
	github.com/gogo/protobuf v1.3.2 // indirect
	github.com/golang/snappy v0.0.4 // indirect
	github.com/gorilla/websocket v1.4.2 // indirect
	github.com/jinzhu/copier v0.3.5 // indirect
	github.com/json-iterator/go v1.1.12 // indirect
	github.com/k0kubun/pp v3.0.1+incompatible // indirect
	github.com/klauspost/cpuid/v2 v2.2.4 // indirect
	github.com/leodido/go-urn v1.2.4 // indirect
	github.com/lufia/plan9stats v0.0.0-20211012122336-39d0f177ccd0 // indirect
	github.com/magiconair/properties v1.8.6 // indirect
	github.com/matttproud/golang_protobuf_extensions v1.0.4 // indirect
	github.com/mitchellh/copystructure v1.2.0 // indirect
	github.com/mitchellh/reflectwalk v1.0.2 // indirect
	github.com/modern-go/concurrent v0.0.0-20180306012644-bacd9c7ef1dd // indirect
	github.com/modern-go/reflect2 v1.0.2 // indirect
	github.com/mschoch/smat v0.2.0 // indirect
	github.com/pelletier/go-toml/v2 v2.0.8 // indirect
	github.com/pingcap/errors v0.11.5-0.20210425183316-da1aaba5fb63 // indirect
	github.com/pmezard/go-difflib v1.0.0 // indirect
	github.com/power-devops/perfstat v0.0.0-20210106213030-5aafc221ea8c // indirect
	github.com/prometheus/client_model v0.2.0 // indirect
	github.com/prometheus/procfs v0.7.3 // indirect
	github.com/satori/go.uuid v1.2.1-0.20181028125025-b2ce2384e17b // indirect
	github.com/shirou/gopsutil/v3 v3.22.2 // indirect
	github.com/tklauser/go-sysconf v0.3.10 // indirect
	github.com/tklauser/numcpus v0.4.0 // indirect
	github.com/twitchyliquid64/golang-asm v0.15.1 // indirect
	github.com/ugorji/go/codec v1.2.11 // indirect
	github.com/yusufpapurcu/wmi v1.2.2 // indirect
	go.etcd.io/etcd/client/pkg/v3 v3.5.6 // indirect
	go.uber.org/multierr v1.10.0 // indirect
	golang.org/x/arch v0.3.0 // indirect
	golang.org/x/text v0.14.0 // indirect
	gopkg.in/natefinch/lumberjack.v2 v2.0.0 // indirect
	gopkg.in/yaml.v3 v3.0.1 // indirect
	github.com/BurntSushi/toml v1.1.0 // indirect
	github.com/go-playground/validator/v10 v10.14.0 // indirect
	github.com/klauspost/compress v1.15.11
	github.com/mattn/go-colorable v0.1.8 // indirect
	github.com/mattn/go-isatty v0.0.19 // indirect
	github.com/pelletier/go-toml v1.9.3 // indirect
	github.com/pingcap/log v0.0.0-20210906054005-afc726e70354 // indirect
	golang.org/x/crypto v0.17.0 // indirect
	golang.org/x/net v0.17.0 // indirect
	golang.org/x/sys v0.15.0 // indirect
	google.golang.org/genproto v0.0.0-20230410155749-daa745c078e1 // indirect
	vimagination.zapto.org/memio v0.0.0-20200222190306-588ebc67b97d // indirect
)

replace seata.apache.org/seata-go => /repo

replace github.com/dubbogo/gost => ./third_party/gost
