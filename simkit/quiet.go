package simkit

import "sync"

// QuietMutex is a mutex whose acquire / release events are hidden from the
// race detector (race builds only; a plain mutex otherwise). The simulated
// database, network and scheduler are shared by all goroutines of the client;
// in a real deployment they are other processes and order nothing inside the
// client. With an ordinary mutex every statement and every message would add
// a happens-before edge between client goroutines and mask the client's own
// data races (C20). The price: the detector sees the harness's own state as
// racy; reports whose access sites lie in the harness are dropped by the driver.
type QuietMutex struct{ m sync.Mutex }

func (q *QuietMutex) Lock() {
	raceDisable()
	q.m.Lock()
	raceEnable()
}

func (q *QuietMutex) Unlock() {
	raceDisable()
	q.m.Unlock()
	raceEnable()
}
