//go:build race

package simkit

import "runtime"

func raceDisable() { runtime.RaceDisable() }
func raceEnable()  { runtime.RaceEnable() }
