// Package simkit is the core of the deterministic simulator: the decision tape
// (the only source of choice), the event scheduler that runs inside a
// testing/synctest bubble, the canonical event log and the violation sink.
package simkit

import (
	"crypto/sha256"
	"encoding/hex"
	"fmt"
	"math/rand/v2"
	"path"
	"sort"
	"strings"
	"sync/atomic"
	"testing/synctest"
	"time"
)

// ---------------------------------------------------------------------------
// Tape

// Tape is the single source of nondeterministic choice of a run. In generate
// mode it draws from a PCG stream seeded by the run seed and records every
// decision; in replay mode it reads the recorded decisions (exhausted tape or
// out-of-range value => deterministic fallback, so that a shortened or zeroed
// tape is still a valid, simpler schedule).
type Tape struct {
	rng    *rand.Rand
	Rec    []int
	replay []int
	pos    int
	Replay bool
}

func NewTape(seed uint64) *Tape {
	return &Tape{rng: rand.New(rand.NewPCG(seed, 0x9e3779b97f4a7c15^seed))}
}

func ReplayTape(rec []int) *Tape { return &Tape{replay: rec, Replay: true} }

// Choose returns a value in [0,n).
func (t *Tape) Choose(n int) int {
	if n <= 1 {
		return 0
	}
	var v int
	if t.Replay {
		if t.pos < len(t.replay) {
			v = t.replay[t.pos]
			if v < 0 {
				v = -v
			}
			v %= n
		}
		t.pos++
	} else {
		v = t.rng.IntN(n)
	}
	t.Rec = append(t.Rec, v)
	return v
}

// Gen is a helper PRNG for plan generation (workloads, configs, fault plans).
// It is independent of the schedule tape so that shrinking the tape does not
// change the workload.
type Gen struct{ R *rand.Rand }

func NewGen(seed uint64) *Gen {
	return &Gen{R: rand.New(rand.NewPCG(seed^0xabcdef12345, seed+17))}
}
func (g *Gen) Intn(n int) int {
	if n <= 0 {
		return 0
	}
	return g.R.IntN(n)
}
func (g *Gen) Bool() bool          { return g.R.IntN(2) == 0 }
func (g *Gen) Prob(p float64) bool { return g.R.Float64() < p }
func (g *Gen) Range(lo, hi int) int {
	if hi <= lo {
		return lo
	}
	return lo + g.R.IntN(hi-lo+1)
}
func (g *Gen) Int63() int64   { return g.R.Int64() }
func (g *Gen) Uint64() uint64 { return g.R.Uint64() }
func Pick[T any](g *Gen, xs []T) T {
	return xs[g.Intn(len(xs))]
}

// ---------------------------------------------------------------------------
// Violations

type Violation struct {
	Property string `json:"property"`
	Clause   string `json:"clause"`
	Detail   string `json:"detail"`
	// Class is the normalised detail used to decide whether two runs show
	// "the same" violation (minimisation, known findings).
	Class string `json:"class"`
	Seq   uint64 `json:"seq"`
}

// ---------------------------------------------------------------------------
// Scheduler

type Event struct {
	Key  string        // stable sort key (kind|owner|ownerseq)
	At   time.Duration // not enabled before this simulated instant
	Desc string
	Run  func()
	id   uint64
}

type Sim struct {
	mu    QuietMutex
	goSeq int
	// Batch / BatchWindow: run all events enabled within the window before the
	// next quiescence point (concurrent engines only; not replayable)
	Batch       bool
	BatchWindow time.Duration
	events      []*Event
	wake        chan struct{}
	Tape        *Tape
	start       time.Time
	seq         uint64
	evid        uint64
	log         []string
	LogOn       bool
	hash        [32]byte
	hasher      []byte
	Steps       int
	MaxStep     int
	MaxTime     time.Duration
	Viol        []Violation
	Probes      map[string]int
	Faults      map[string]int
	// Invariant, when set, is evaluated after every step at quiescence.
	Invariant func()
	stopped   bool
	idleQ     time.Duration
	Hung      bool
	States    map[string]struct{}
	actors    int
	// Known lists "clause/class" keys of known findings (read-only at run
	// time); a violation with such a key is counted in KnownHits instead of
	// being reported.
	Known     map[string]bool
	KnownHits map[string]int
	KnownWhat map[string]string
}

// CurrentTape is the tape of the most recently created simulator (read by
// the real-time lock-up observer, which lives outside the bubble).
var CurrentTape atomic.Pointer[Tape]

func NewSim(t *Tape) *Sim {
	CurrentTape.Store(t)
	return &Sim{
		Tape:    t,
		wake:    make(chan struct{}, 1),
		start:   time.Now(),
		Probes:  map[string]int{},
		Faults:  map[string]int{},
		States:  map[string]struct{}{},
		MaxStep: 20000,
		MaxTime: 2 * time.Hour,
		LogOn:   true,
	}
}

// Now returns simulated time since the run began.
func (s *Sim) Now() time.Duration { return time.Since(s.start) }

// Seq returns the current global event sequence number.
func (s *Sim) Seq() uint64 {
	s.mu.Lock()
	defer s.mu.Unlock()
	return s.seq
}

// Logf appends a line to the canonical event log. It never draws from the
// tape and never reads a real clock.
func (s *Sim) Logf(format string, a ...any) uint64 {
	s.mu.Lock()
	defer s.mu.Unlock()
	s.seq++
	line := fmt.Sprintf(format, a...)
	h := sha256.New()
	h.Write(s.hash[:])
	h.Write([]byte(line))
	copy(s.hash[:], h.Sum(nil))
	if s.LogOn {
		s.log = append(s.log, fmt.Sprintf("%06d t=%-12v %s", s.seq, s.Now(), line))
	}
	return s.seq
}

// LogfQuiet records a line with its place in the event sequence but outside
// the trace hash (see simdb.Server.logq).
func (s *Sim) LogfQuiet(format string, a ...any) uint64 {
	s.mu.Lock()
	defer s.mu.Unlock()
	s.seq++
	if s.LogOn {
		s.log = append(s.log, fmt.Sprintf("%06d t=%-12v %s", s.seq, s.Now(), fmt.Sprintf(format, a...)))
	}
	return s.seq
}

// Note appends a diagnostic line to the log without touching the trace hash
// or the event sequence (client log output may contain addresses).
func (s *Sim) Note(format string, a ...any) {
	s.mu.Lock()
	defer s.mu.Unlock()
	if s.LogOn && len(s.log) < 200000 {
		line := fmt.Sprintf(format, a...)
		if len(line) > 600 {
			line = line[:600] + "..."
		}
		s.log = append(s.log, "       note           "+line)
	}
}

func (s *Sim) Log() []string {
	s.mu.Lock()
	defer s.mu.Unlock()
	return append([]string(nil), s.log...)
}

func (s *Sim) TraceHash() string {
	s.mu.Lock()
	defer s.mu.Unlock()
	return hex.EncodeToString(s.hash[:8])
}

func (s *Sim) Probe(name string) {
	s.mu.Lock()
	s.Probes[name]++
	s.mu.Unlock()
}

func (s *Sim) Fault(name string) {
	s.mu.Lock()
	s.Faults[name]++
	s.mu.Unlock()
}

func (s *Sim) State(sig string) {
	s.mu.Lock()
	s.States[sig] = struct{}{}
	s.mu.Unlock()
}

// Violate records a violation. class may be "" (then clause alone is the class).
func (s *Sim) Violate(prop, clause, class, format string, a ...any) {
	d := fmt.Sprintf(format, a...)
	if class == "" {
		class = clause
	}
	if entry, ok := s.isKnown(clause + "/" + class); ok {
		s.Logf("KNOWN-FINDING %s/%s/%s %s", prop, clause, class, d)
		s.mu.Lock()
		if s.KnownHits == nil {
			s.KnownHits = map[string]int{}
			s.KnownWhat = map[string]string{}
		}
		s.KnownHits[entry]++
		if s.KnownWhat[entry] == "" {
			s.KnownWhat[entry] = d
		}
		s.mu.Unlock()
		return
	}
	seq := s.Logf("VIOLATION %s/%s %s", prop, clause, d)
	s.mu.Lock()
	s.Viol = append(s.Viol, Violation{Property: prop, Clause: clause, Detail: d, Class: class, Seq: seq})
	s.mu.Unlock()
}

// isKnown matches a clause/class key against the known-finding list; entries
// may use * as a wildcard (path.Match syntax) inside the class part.
func (s *Sim) isKnown(key string) (entry string, ok bool) {
	if s.Known[key] {
		return key, true
	}
	for pat := range s.Known {
		if strings.ContainsAny(pat, "*?") {
			if m, _ := path.Match(pat, key); m {
				return pat, true
			}
		}
	}
	return "", false
}

func (s *Sim) Violations() []Violation {
	s.mu.Lock()
	defer s.mu.Unlock()
	return append([]Violation(nil), s.Viol...)
}

// Post adds an event to the enabled set (after delay d of simulated time).
func (s *Sim) Post(key string, d time.Duration, desc string, run func()) {
	s.mu.Lock()
	s.evid++
	s.events = append(s.events, &Event{Key: key, At: s.Now() + d, Desc: desc, Run: run, id: s.evid})
	s.mu.Unlock()
	select {
	case s.wake <- struct{}{}:
	default:
	}
}

// Park blocks the calling goroutine (a client goroutine that reached a sim
// point) until the scheduler picks it. The blocking is durable in synctest
// terms (channel created inside the bubble).
func (s *Sim) Park(key, desc string) {
	ch := make(chan struct{})
	s.Post(key, 0, desc, func() { close(ch) })
	<-ch
}

// ParkAfter is Park with a not-before delay.
func (s *Sim) ParkAfter(key string, d time.Duration, desc string) {
	ch := make(chan struct{})
	s.Post(key, d, desc, func() { close(ch) })
	<-ch
}

// Go starts a workload actor inside the bubble.
func (s *Sim) Go(name string, f func()) {
	s.mu.Lock()
	s.actors++
	s.goSeq++
	startKey := fmt.Sprintf("actor-start|%s|%06d", name, s.goSeq)
	s.mu.Unlock()
	go func() {
		defer func() {
			s.mu.Lock()
			s.actors--
			s.mu.Unlock()
			select {
			case s.wake <- struct{}{}:
			default:
			}
		}()
		// an actor starts at a scheduling point of its own: two actors started
		// together would otherwise race to their first unscheduled effect (e.g.
		// opening a database connection, whose id then depends on who was first)
		s.Park(startKey, "")
		f()
	}()
}

func (s *Sim) Actors() int { s.mu.Lock(); defer s.mu.Unlock(); return s.actors }

func (s *Sim) Pending() int { s.mu.Lock(); defer s.mu.Unlock(); return len(s.events) }

// Enabled reports the number of events that could run right now (events
// scheduled for a later simulated instant, e.g. recurring timers, excluded).
func (s *Sim) Enabled() int {
	s.mu.Lock()
	defer s.mu.Unlock()
	now := s.Now()
	n := 0
	for _, e := range s.events {
		if e.At <= now {
			n++
		}
	}
	return n
}

// Stop ends Run at the next iteration.
func (s *Sim) Stop() { s.mu.Lock(); s.stopped = true; s.mu.Unlock() }

// Run drives the simulation until done() holds at quiescence, or a cap is
// hit. It must be called from the goroutine that owns the bubble. Returns
// true if done() was reached.
// ProgressHook, when set, is called once per scheduler iteration (after the
// bubble went quiescent): a sign of life for a real-time observer.
var ProgressHook func()

func (s *Sim) Run(done func() bool) bool {
	for {
		synctest.Wait()
		if ProgressHook != nil {
			ProgressHook()
		}
		if s.Invariant != nil {
			s.Invariant()
		}
		s.mu.Lock()
		stopped := s.stopped
		s.mu.Unlock()
		if stopped {
			return false
		}
		if done != nil && done() {
			return true
		}
		now := s.Now()
		if s.Steps >= s.MaxStep || now >= s.MaxTime {
			s.Hung = true
			s.Logf("CAP steps=%d now=%v", s.Steps, now)
			return false
		}
		s.mu.Lock()
		var en []*Event
		var next time.Duration = -1
		for _, e := range s.events {
			if e.At <= now+s.BatchWindow {
				en = append(en, e)
			} else if next < 0 || e.At < next {
				next = e.At
			}
		}
		s.mu.Unlock()
		if len(en) == 0 {
			// nothing enabled: let simulated time advance to the next own
			// event, or to whatever timer the client has armed.
			d := s.MaxTime - now
			// idle quantum: re-evaluate done() regularly; grows while idle so
			// that long waits stay cheap, resets after every executed event
			if s.idleQ <= 0 {
				s.idleQ = 500 * time.Millisecond
			}
			if s.idleQ < d {
				d = s.idleQ
			}
			if s.idleQ < time.Hour {
				s.idleQ *= 2
			}
			if next >= 0 && next-now < d {
				d = next - now
			}
			// drain stale wake
			select {
			case <-s.wake:
			default:
			}
			if s.Pending() > 0 && next < 0 {
				continue
			}
			tm := time.NewTimer(d)
			select {
			case <-s.wake:
				tm.Stop()
			case <-tm.C:
			}
			continue
		}
		sort.SliceStable(en, func(i, j int) bool {
			if en[i].Key != en[j].Key {
				return en[i].Key < en[j].Key
			}
			return en[i].id < en[j].id
		})
		if s.Batch {
			// concurrent mode (C20): every enabled event runs before the next
			// quiescence point, so that the goroutines they wake run in parallel
			s.mu.Lock()
			keep := s.events[:0]
			inBatch := map[*Event]bool{}
			for _, e := range en {
				inBatch[e] = true
			}
			for _, e := range s.events {
				if !inBatch[e] {
					keep = append(keep, e)
				}
			}
			s.events = keep
			s.mu.Unlock()
			s.idleQ = 0
			for _, e := range en {
				s.Steps++
				e.Run()
			}
			continue
		}
		i := s.Tape.Choose(len(en))
		ev := en[i]
		s.mu.Lock()
		for k, e := range s.events {
			if e == ev {
				s.events = append(s.events[:k], s.events[k+1:]...)
				break
			}
		}
		s.mu.Unlock()
		s.Steps++
		s.idleQ = 0
		if ev.Desc != "" {
			s.Logf("STEP %s %s", ev.Key, ev.Desc)
		}
		ev.Run()
	}
}

// Sleep advances simulated time (scheduler goroutine only, at quiescence).
func (s *Sim) Sleep(d time.Duration) {
	time.Sleep(d)
	synctest.Wait()
}
