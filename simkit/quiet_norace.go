//go:build !race

package simkit

func raceDisable() {}
func raceEnable()  {}
