#!/usr/bin/env python3
# Regenerates MANIFEST.json from the table below (kept in one place so that it is always valid).
import json, subprocess
props=[json.loads(l) for l in open('/verif/properties.jsonl')]
claimed = json.load(open('/verif/claims.json'))
na = {
 "C12": "pure function of its input (message value -> bytes -> message value): no schedule, clock, fault, interleaving or second party for a simulator to decide; needs input generation against a layout table (property-based testing), which is outside the technique family studied here. See DESIGN.md section 5 'Not applicable'.",
}
hooks=subprocess.run(['git','-C','/repo','log','--format=%H %s'],capture_output=True,text=True).stdout.splitlines()
hook_commits=[l.split()[0] for l in hooks if l.split(' ',1)[1].startswith('verif hooks')]
checks=[]
for p in props:
    c=claimed.get(p['id'])
    if not c: continue
    checks.append({
      "property_id":p['id'],
      "quick_cmd":"./check %s quick"%p['id'],
      "thorough_cmd":"./check %s thorough"%p['id'],
      "evidence_file":"/verif/evidence/%s.json"%p['id'],
      "replay_cmd_template":"./check replay {path}",
      "engine":c.get("engine","sim"),
      "level_claimed":{"category":c["level"],"text":c["text"],"design_ref":c.get("design_ref","DESIGN.md section 5")},
      "level_note":c["note"],
      "technique":c.get("technique","deterministic simulation with fault injection (seeded scheduler over real client code, simulated coordinator/network/clock)"),
    })
not_app=[]
for p in props:
    if p['id'] in claimed: continue
    not_app.append({"property_id":p['id'],"reason":na.get(p['id'],"check not built yet (build in progress); planned per DESIGN.md section 5")})
m={"version":1,
 "setup_cmd":"./setup.sh",
 "hooks":{"guard":"verif (Go build tag)","enable":"checks build the simulation binary with `go1.26.8 test -c -tags verif ./sim` in the harness module /verif (replace seata.apache.org/seata-go => /repo), so /repo's working tree is rebuilt on every check","baseline_off_cmd":"cd /repo && GOFLAGS=-mod=mod go test -vet=off -count=1 -timeout 25m ./...","source_commits":hook_commits,"add_only":True},
 "engines":[{"name":"sim","path":"/verif/sim","serves_properties":sorted(claimed.keys()),"kind_free_text":"deterministic simulator: real seata-go client inside a go1.26 testing/synctest bubble (fake clock), seeded tape scheduler (simkit), simulated getty session/link (simnet), coordinator reference model with independent wire codec (simtc), in-memory MySQL model behind database/sql/driver (simdb); one OS process per run, fan-out/minimisation/replay by cmd/simdrive"}],
 "checks":checks,
 "notes":"Exit codes: 0 held (possibly with KNOWN-FINDING lines), 1 unlisted violation (VIOLATION line + replay file), 2 harness/build trouble. Known findings and repaired defects: /verif/known_findings.jsonl. Replay: ./check replay <file>. Determinism self-test: ./check selftest.",
 "not_applicable":not_app}
json.dump(m,open('/verif/MANIFEST.json','w'),indent=1)
print(len(checks),"checks,",len(not_app),"not claimed")
